#!/usr/bin/env python3
# Rewrites the table of DESIGN.md §12.5 from /verif/seeded/*/meta.json (run after tools/run_seeds.py).
import json, glob, os, re
p='/verif/DESIGN.md'
s=open(p).read()
a=s.index("| seed | change (short) | obligation that reports it |")
b=s.index("### 12.6")
rows="| seed | change (short) | obligation that reports it |\n|---|---|---|\n"
n=c=0
for d in sorted(glob.glob('/verif/seeded/*')):
    m=json.load(open(d+'/meta.json')); det=m.get('detection',{})
    obs=[]
    for chk,v in det.get('checks',{}).items():
        obs+=[chk+': '+o for o in v.get('failed_obligations',[])[:1]]
    summ=(m.get('summary') or '').replace('\n',' ').replace('|','/')
    summ=summ[:150]+('…' if len(summ)>150 else '')
    n+=1; c+=1 if det.get('caught') else 0
    rows+="| %s | %s | %s |\n"%(os.path.basename(d),summ,'; '.join(obs[:2]) if det.get('caught') else 'MISSED')
rows+="\n%d of %d seeded changes are reported by the check of their property.\n\n"%(c,n)
s=s[:a]+rows+s[b:]
open(p,'w').write(s)
print(c,'of',n)
