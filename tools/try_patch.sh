#!/bin/bash
# usage: try_patch.sh <diff> <prop> : applies a diff to the scratch tree /tmp/work, runs the check there, reverts
cd /tmp/work && git apply $1 || exit 2
cd /verif && VERIF_OUT=/tmp/outw VERIF_REPO=/tmp/work VERIF_NO_EVIDENCE=1 ./check $2 2>&1 | grep -v "^VIOLATION\|^    " | tail -${TAILN:-6}
cd /tmp/work && git apply -R $1
