#!/usr/bin/env python3
# Applies every seeded change (/verif/seeded/<dir>/patch.diff) to /repo, runs the check(s) of the property it breaks,
# reverts, and records in meta.json which obligation (if any) reported it.
import os, json, os, subprocess, sys, glob
only = sys.argv[1:] 
REPO = os.environ.get('VERIF_REPO', '/repo')  # a scratch worktree can be used instead of /repo (then set VERIF_OUT too)
for d in sorted(glob.glob('/verif/seeded/*')):
    name = os.path.basename(d)
    if only and name not in only: continue
    mp = os.path.join(d, 'meta.json')
    meta = json.load(open(mp)) if os.path.exists(mp) else {}
    prop = name[:3]
    checks = meta.get('checks_run', [prop])
    r = subprocess.run(['git','-C',REPO,'apply',os.path.join(d,'patch.diff')],capture_output=True,text=True)
    if r.returncode != 0:
        meta['detection'] = {'applies': False, 'error': r.stderr.strip()}
        json.dump(meta, open(mp,'w'), indent=1); print(name, 'PATCH DOES NOT APPLY'); continue
    det = {'applies': True, 'checks': {}}
    try:
        for c in checks:
            p = subprocess.run(['/verif/check', c], capture_output=True, text=True, env=dict(os.environ, VERIF_NO_EVIDENCE='1'))
            failed = [l.strip() for l in p.stdout.splitlines() if l.strip().startswith('failed obligation:')]
            det['checks'][c] = {'exit': p.returncode, 'failed_obligations': [f.split()[2] for f in failed]}
    finally:
        subprocess.run(['git','-C',REPO,'checkout','--','.'])
    det['caught'] = any(v['exit'] != 0 for v in det['checks'].values())
    meta['detection'] = det
    json.dump(meta, open(mp,'w'), indent=1)
    print(name, 'CAUGHT' if det['caught'] else 'MISSED', {k: v['failed_obligations'][:2] for k, v in det['checks'].items()})
