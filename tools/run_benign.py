#!/usr/bin/env python3
# Applies every behaviour-preserving refactoring in /verif/benign/<id>/refactorN.diff to /repo, runs the check of the
# property it was written against (evidence writing off), reverts, and records whether the check stayed silent.
import os, json, subprocess, sys, glob
REPO=os.environ.get('VERIF_REPO','/repo')  # a scratch worktree can be used instead of /repo (then set VERIF_OUT too)
only=sys.argv[1:]
res={}
for d in sorted(glob.glob('/verif/benign/*')):
    name=os.path.basename(d)
    if only and name not in only: continue
    prop=name[:3]
    for f in sorted(glob.glob(d+'/refactor*.diff')):
        key=name+'/'+os.path.basename(f)
        if subprocess.run(['git','-C',REPO,'apply',f]).returncode!=0:
            res[key]={'applies':False}; print(key,'DOES NOT APPLY'); continue
        try:
            p=subprocess.run(['/verif/check',prop],capture_output=True,text=True,env=dict(os.environ,VERIF_NO_EVIDENCE='1'))
            failed=[l.split()[2] for l in p.stdout.splitlines() if l.strip().startswith('failed obligation:')]
            res[key]={'applies':True,'exit':p.returncode,'failed_obligations':failed}
            print(key,'silent' if p.returncode==0 else 'ALARM',failed[:3])
        finally:
            subprocess.run(['git','-C',REPO,'checkout','--','.'])
            subprocess.run(['git','-C',REPO,'clean','-fdq','--','internal','pkg','cmd','apis'])
if only and os.path.exists('/verif/benign/results.json'):
    old=json.load(open('/verif/benign/results.json')); old.update(res); res=old
json.dump(res,open('/verif/benign/results.json','w'),indent=1,sort_keys=True)
