#!/bin/bash
# full regression of all claimed checks against the scratch tree /tmp/work (contracts copied from /verif/contracts), no evidence written
cd /verif
(cd contracts && find . -name zz_contracts_verif.go) | while read f; do mkdir -p /tmp/work/$(dirname $f); cp contracts/$f /tmp/work/$f; done
for p in ${@:-C01 C02 C03 C04 C05 C06 C07 C08 C09 C11 C12 C13 C14 C15 C16 C17 C18 C19 C20}; do
  VERIF_OUT=/tmp/outw VERIF_REPO=/tmp/work VERIF_NO_EVIDENCE=1 ./check $p 2>&1 | grep -v "^VIOLATION\|^KNOWN\|^  known\|^    "
done
