#!/bin/bash
# usage: try_seed.sh <seed-id> [prop] : applies a stored seeded change to the scratch tree /tmp/work, runs the check there, reverts
ID=$1; P=${2:-${ID:0:3}}
cd /tmp/work && git apply /verif/seeded/$ID/patch.diff || exit 2
cd /verif && VERIF_OUT=/tmp/outw VERIF_REPO=/tmp/work VERIF_NO_EVIDENCE=1 ./check $P 2>&1 | tail -${TAILN:-6}
cd /tmp/work && git apply -R /verif/seeded/$ID/patch.diff
