#!/bin/bash
# Mirrors /verif/contracts/**/zz_contracts_verif.go into /repo (comment-only files behind build tag verif) and commits
# them there as a "verif:" commit when anything changed; then regenerates MANIFEST.json (hooks.source_commits).
set -e
cd /verif/contracts
changed=0
for f in $(find . -name zz_contracts_verif.go); do
  d=/repo/$(dirname $f)
  if ! cmp -s $f $d/zz_contracts_verif.go 2>/dev/null; then cp $f $d/zz_contracts_verif.go; changed=1; fi
done
if [ $changed = 1 ]; then
  git -C /repo add -A '*zz_contracts_verif.go'
  git -C /repo commit -qm "verif: contract comment files updated (build tag verif, comment-only)"
fi
python3 /verif/tools/gen_manifest.py
