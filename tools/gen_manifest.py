#!/usr/bin/env python3
# Generates /verif/MANIFEST.json from the table below (kept in one place so that claims stay in sync with props.json).
import json, subprocess
props=[json.loads(l) for l in open('/verif/properties.jsonl')]
CLAIMS = json.load(open('/verif/tools/claims.json'))
hooks_commits = []
try:
    out = subprocess.run(['git','-C','/repo','log','--format=%H %s'],capture_output=True,text=True).stdout
    for ln in out.splitlines():
        h, s = ln.split(' ',1)
        if s.startswith('verif:'):
            hooks_commits.append(h)
except Exception:
    pass
m={"version":1,
 "setup_cmd":"cd /verif && . ./env.sh && cd engine && GOFLAGS=-mod=mod GOWORK=off go build -o ../bin/govc . && z3 --version && z3-new --version && cvc5 --version | head -1",
 "hooks":{"guard":"verif","enable":"go build -tags verif ./...  (the tag only adds comment-only zz_contracts_verif.go files; checks read the contracts, they do not need the tag at run time)",
          "baseline_off_cmd":"cd /repo && . /verif/env.sh && for m in . apis pkg; do (cd $m && go test -vet=off -count=1 ./...); done",
          "source_commits":hooks_commits,"add_only":True},
 "engines":[{"name":"govc","path":"/verif/engine","serves_properties":sorted(CLAIMS["claimed"].keys()),
   "kind_free_text":"verification-condition generator (symbolic execution / weakest preconditions over go/ssa of the real /repo code) + contracts kept as //@ comments in zz_contracts_verif.go files; obligations discharged by z3 4.8.12 / z3 5.1.0 / cvc5 1.0.3 raced per obligation"}],
 "checks":[], "not_applicable":[], "notes":"See DESIGN.md. Every check regenerates its obligations from /repo's working tree on every run."}
for p in props:
    i=p['id']
    if i in CLAIMS["claimed"]:
        c=CLAIMS["claimed"][i]
        m["checks"].append({"property_id":i,"quick_cmd":"./check %s --tier quick"%i,"thorough_cmd":"./check %s --tier thorough"%i,
          "evidence_file":"/verif/evidence/%s.json"%i,"engine":"govc","replay_cmd_template":"cat {path}",
          "level_claimed":{"category":"proof","text":c["text"],"design_ref":"DESIGN.md §9 "+i},
          "level_note":c["note"],"technique":"contract-based deductive verification: function contracts on the real code, VCs generated over go/ssa, discharged by SMT (z3/cvc5)"})
    else:
        m["not_applicable"].append({"property_id":i,"reason":CLAIMS["not_applicable"].get(i,"no check built for this property in this round")})
json.dump(m,open('/verif/MANIFEST.json','w'),indent=1)
print("claimed:",sorted(CLAIMS["claimed"].keys()))
