package packageimport

import (
	"archive/tar"
	"bytes"
	"context"
	"fmt"
	"testing"

	"github.com/google/go-containerregistry/pkg/v1/empty"
	"github.com/google/go-containerregistry/pkg/v1/mutate"
	"github.com/google/go-containerregistry/pkg/v1/static"
	"github.com/google/go-containerregistry/pkg/v1/types"
)

func fixChecksum(blk []byte) {
	for i := 148; i < 156; i++ {
		blk[i] = ' '
	}
	var sum int
	for _, b := range blk[:512] {
		sum += int(b)
	}
	copy(blk[148:156], []byte(fmt.Sprintf("%06o\x00 ", sum)))
}

func TestProbeFromOCICorruptTar(t *testing.T) {
	var buf bytes.Buffer
	tw := tar.NewWriter(&buf)
	_ = tw.WriteHeader(&tar.Header{Name: "package/a.yaml", Mode: 0o644, Size: 3, Format: tar.FormatGNU})
	_, _ = tw.Write([]byte("abc"))
	_ = tw.WriteHeader(&tar.Header{Name: "package/b.yaml", Mode: 0o644, Size: 0, Format: tar.FormatGNU})
	_ = tw.Close()
	raw := buf.Bytes()
	// second header starts at 1024; make it a GNU sparse entry
	for _, tf := range []byte{'S', 'x', 'g', 'L', 'K', 'V', 'M', 'N', 'D', 'Z'} {
		b := append([]byte{}, raw...)
		b[1024+156] = tf
		fixChecksum(b[1024:1536])
		img, err := mutate.AppendLayers(empty.Image, static.NewLayer(b, types.OCIUncompressedLayer))
		if err != nil {
			t.Fatal(err)
		}
		func() {
			defer func() {
				if r := recover(); r != nil {
					t.Errorf("typeflag=%c PANIC: %v", tf, r)
				}
			}()
			_, err = FromOCI(context.Background(), img)
			t.Logf("typeflag=%c err=%v", tf, err)
		}()
	}
}
