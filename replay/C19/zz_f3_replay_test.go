package packagerender

import (
	"testing"

	"k8s.io/apimachinery/pkg/apis/meta/v1/unstructured"

	"package-operator.run/internal/apis/manifests"
	"package-operator.run/internal/packages/internal/packagetypes"
)

func TestProbeConditionMapPanic(t *testing.T) {
	obj := unstructured.Unstructured{Object: map[string]any{"apiVersion": "v1", "kind": "ConfigMap", "metadata": map[string]any{"name": "x"}}}
	obj.SetAnnotations(map[string]string{
		manifests.PackagePhaseAnnotation:        "p1",
		manifests.PackageConditionMapAnnotation: "Available",
	})
	defer func() {
		if r := recover(); r != nil {
			t.Fatalf("PANIC: %v", r)
		}
	}()
	RenderObjectSetTemplateSpec(&packagetypes.PackageInstance{
		Manifest: &manifests.PackageManifest{Spec: manifests.PackageManifestSpec{Phases: []manifests.PackageManifestPhase{{Name: "p1"}}}},
		Objects:  []unstructured.Unstructured{obj},
	})
}
