package objecttemplate

import (
	"context"
	"testing"

	"k8s.io/apimachinery/pkg/apis/meta/v1/unstructured"

	corev1alpha1 "package-operator.run/apis/core/v1alpha1"
	"package-operator.run/internal/adapters"
)

func TestProbeEmptyDestination(t *testing.T) {
	defer func() {
		if r := recover(); r != nil {
			t.Errorf("PANIC copySourceItem: %v", r)
		}
	}()
	src := &unstructured.Unstructured{Object: map[string]any{"data": map[string]any{"a": "b"}}}
	err := copySourceItem(corev1alpha1.ObjectTemplateSourceItem{Key: ".data.a", Destination: ""}, src, map[string]any{})
	t.Logf("err=%v", err)
}

func TestProbeConditionWithoutReason(t *testing.T) {
	defer func() {
		if r := recover(); r != nil {
			t.Errorf("PANIC updateStatusConditionsFromOwnedObject: %v", r)
		}
	}()
	// e.g. a Pod: metadata.generation absent (0), condition without reason/message/observedGeneration
	existing := &unstructured.Unstructured{Object: map[string]any{
		"apiVersion": "v1", "kind": "Pod", "metadata": map[string]any{"name": "p"},
		"status": map[string]any{"conditions": []any{map[string]any{"type": "Ready", "status": "True"}}},
	}}
	ot := &adapters.GenericObjectTemplate{}
	err := updateStatusConditionsFromOwnedObject(context.Background(), ot, existing)
	t.Logf("err=%v", err)
}
