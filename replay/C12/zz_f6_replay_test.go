package dynamiccache

import (
	"context"
	"errors"
	"testing"

	"github.com/stretchr/testify/mock"
	corev1 "k8s.io/api/core/v1"
	metav1 "k8s.io/apimachinery/pkg/apis/meta/v1"
)

func TestProbeWatchAfterFailedStart(t *testing.T) {
	c, cacheSource, informerMap := setupTestCache(t)
	informerMap.On("Get", mock.Anything, mock.Anything, mock.Anything, mock.Anything).
		Return(nil, nil, errors.New("boom")).Once()
	informerMap.On("Delete", mock.Anything, mock.Anything).Return(nil)
	informerMap.On("Get", mock.Anything, mock.Anything, mock.Anything, mock.Anything).
		Return(nil, nil, nil)
	cacheSource.On("handleNewInformer", mock.Anything).Return(nil)

	ctx := context.Background()
	owner := &corev1.ConfigMap{ObjectMeta: metav1.ObjectMeta{Name: "o", Namespace: "test", UID: "u1"}}
	obj := &corev1.Secret{ObjectMeta: metav1.ObjectMeta{Name: "s", Namespace: "test"}}

	err1 := c.Watch(ctx, owner, obj)
	t.Logf("first Watch err=%v, refs after failure=%v", err1, c.informerReferences)
	err2 := c.Watch(ctx, owner, obj)
	t.Logf("second Watch err=%v", err2)
	nGet := 0
	nHandle := 0
	for _, call := range informerMap.Calls {
		if call.Method == "Get" {
			nGet++
		}
	}
	for _, call := range cacheSource.Calls {
		if call.Method == "handleNewInformer" {
			nHandle++
		}
	}
	t.Logf("informerMap.Get calls=%d handleNewInformer calls=%d", nGet, nHandle)
	if err2 == nil && nHandle == 0 {
		t.Errorf("retry after failed start succeeded without creating informer / registering handlers")
	}
}
