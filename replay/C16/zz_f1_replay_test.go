package packagedeploy

import (
	"context"
	"testing"

	"github.com/stretchr/testify/mock"
	"k8s.io/apimachinery/pkg/api/meta"
	metav1 "k8s.io/apimachinery/pkg/apis/meta/v1"

	corev1alpha1 "package-operator.run/apis/core/v1alpha1"
	"package-operator.run/internal/adapters"
	"package-operator.run/internal/apis/manifests"
	"package-operator.run/internal/packages/internal/packagetypes"
	"package-operator.run/internal/testutil"
)

func TestProbeConstraintsDoNotBlock(t *testing.T) {
	c := testutil.NewClient()
	sl := &structuralLoaderMock{}
	dr := &deploymentReconcilerMock{}
	l := &PackageDeployer{client: c, scheme: testScheme, newObjectDeployment: adapters.NewObjectDeployment,
		structuralLoader: sl, deploymentReconciler: dr}
	sl.On("LoadComponent", mock.Anything, mock.Anything, mock.Anything).Return(&packagetypes.Package{
		Manifest: &manifests.PackageManifest{Spec: manifests.PackageManifestSpec{
			Scopes: []manifests.PackageManifestScope{manifests.PackageManifestScopeNamespaced},
			Phases: []manifests.PackageManifestPhase{{Name: "phase-1"}},
			Constraints: []manifests.PackageManifestConstraint{
				{PlatformVersion: &manifests.PackageManifestPlatformVersionConstraint{Name: "Kubernetes", Range: ">=1.30.x"}},
				{Platform: []manifests.PlatformName{manifests.OpenShift}},
			},
		}},
	}, nil)
	dr.On("Reconcile", mock.Anything, mock.Anything, mock.Anything).Return(nil)
	apiPkg := &adapters.GenericPackage{Package: corev1alpha1.Package{ObjectMeta: metav1.ObjectMeta{Name: "test", Namespace: "test"}}}
	err := l.Deploy(context.Background(), apiPkg, &packagetypes.RawPackage{Files: packagetypes.Files{}},
		manifests.PackageEnvironment{Kubernetes: manifests.PackageEnvironmentKubernetes{Version: "1.19.2"}})
	t.Logf("Deploy err=%v", err)
	t.Logf("deploymentReconciler.Reconcile calls=%d", len(dr.Calls))
	t.Logf("Invalid cond=%v", meta.FindStatusCondition(apiPkg.Status.Conditions, corev1alpha1.PackageInvalid))
	if len(dr.Calls) > 0 {
		t.Errorf("ObjectDeployment reconciled although constraints are unmet")
	}
}
