package objectsets

import (
	"context"
	"testing"

	"github.com/stretchr/testify/mock"
	"k8s.io/apimachinery/pkg/api/meta"
	metav1 "k8s.io/apimachinery/pkg/apis/meta/v1"
	"k8s.io/apimachinery/pkg/types"
	ctrl "sigs.k8s.io/controller-runtime"
	"sigs.k8s.io/controller-runtime/pkg/client"

	corev1alpha1 "package-operator.run/apis/core/v1alpha1"
	"package-operator.run/internal/constants"
	"package-operator.run/internal/testutil"
	"package-operator.run/internal/testutil/restmappermock"
)

// Archived ObjectSet whose only phase keeps its objects in an ObjectSlice.
// The real controller (built by the real constructor) is asked to reconcile it.
func TestProbeSlicedTeardown(t *testing.T) {
	scheme := testutil.NewTestSchemeWithCoreV1Alpha1()
	c := testutil.NewClient()
	uc := testutil.NewClient()
	dc := &dynamicCacheMock{}
	rm := &restmappermock.RestMapperMock{}
	controller := NewObjectSetController(c, ctrl.Log.WithName("t"), scheme, dc, uc, nil, rm)

	os := &corev1alpha1.ObjectSet{
		ObjectMeta: metav1.ObjectMeta{Name: "os", Namespace: "ns", UID: "uid-os", Finalizers: []string{constants.CachedFinalizer}},
		Spec: corev1alpha1.ObjectSetSpec{
			LifecycleState: corev1alpha1.ObjectSetLifecycleStateArchived,
			ObjectSetTemplateSpec: corev1alpha1.ObjectSetTemplateSpec{
				Phases: []corev1alpha1.ObjectSetTemplatePhase{{Name: "p1", Slices: []string{"slice-1"}}},
			},
		},
	}
	c.On("Get", mock.Anything, mock.Anything, mock.AnythingOfType("*v1alpha1.ObjectSet"), mock.Anything).
		Run(func(args mock.Arguments) { *(args.Get(2).(*corev1alpha1.ObjectSet)) = *os.DeepCopy() }).Return(nil)
	c.On("Patch", mock.Anything, mock.Anything, mock.Anything, mock.Anything).Return(nil)
	c.StatusMock.On("Update", mock.Anything, mock.Anything, mock.Anything).Run(func(args mock.Arguments) {
		o := args.Get(1).(*corev1alpha1.ObjectSet)
		t.Logf("status update: Archived=%v finalizers=%v", meta.IsStatusConditionTrue(o.Status.Conditions, corev1alpha1.ObjectSetArchived), o.Finalizers)
	}).Return(nil)
	dc.On("Free", mock.Anything, mock.Anything).Return(nil)

	_, err := controller.Reconcile(context.Background(), ctrl.Request{NamespacedName: types.NamespacedName{Name: "os", Namespace: "ns"}})
	t.Logf("Reconcile err=%v", err)
	sliceReads, deletes, uncachedReads := 0, 0, len(uc.Calls)
	for _, call := range c.Calls {
		if call.Method == "Get" {
			if _, ok := call.Arguments.Get(2).(*corev1alpha1.ObjectSlice); ok {
				sliceReads++
			}
		}
		if call.Method == "Delete" {
			deletes++
		}
	}
	t.Logf("ObjectSlice reads=%d, deletes=%d, uncached reads (object inspection)=%d", sliceReads, deletes, uncachedReads)
	var _ client.Object = os
	if err == nil && sliceReads == 0 && uncachedReads == 0 {
		t.Errorf("archived sliced ObjectSet reported torn down without ever loading its slices or inspecting any object")
	}
}
