package packagerender

import (
	"context"
	"testing"

	"package-operator.run/internal/apis/manifests"
	"package-operator.run/internal/packages/internal/packagetypes"
)

func TestProbeRenderOrder(t *testing.T) {
	outs := map[string]int{}
	for i := 0; i < 200; i++ {
		pkg := &packagetypes.Package{
			Manifest: &manifests.PackageManifest{},
			Files: packagetypes.Files{
				"a.yaml.gotmpl": []byte(`n: {{ len (getFileGlob "*.yaml") }}`),
				"b.yaml.gotmpl": []byte(`x: 1`),
				"c.yaml.gotmpl": []byte(`x: 2`),
			},
		}
		err := RenderTemplates(context.Background(), pkg, packagetypes.PackageRenderContext{})
		if err != nil {
			outs["ERR:"+err.Error()]++
			continue
		}
		outs[string(pkg.Files["a.yaml"])]++
	}
	for k, v := range outs {
		t.Logf("%4d x %q", v, k)
	}
	if len(outs) > 1 {
		t.Errorf("nondeterministic render: %d distinct outputs", len(outs))
	}
}
