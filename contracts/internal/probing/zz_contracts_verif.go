//go:build verif

// Contracts for package internal/probing (comment-only; read by /verif's govc, never compiled into the product).
package probing

//@ props C03,C17
// the prober built for a probe selector applies the probes exactly to the objects the selector describes: the label
// part is the full label selector of the spec (matchLabels and matchExpressions), the kind part its group and kind
//@ func package-operator.run/internal/probing.ParseSelector
//@   readonly
//@   ensures [C17] result1 == nil && selector.Selector != nil ==> dyntype(result0) == typetag("*package-operator.run/pkg/probing.LabelSelector") && asptr("package-operator.run/pkg/probing.LabelSelector", ival(result0)).Selector == lsAsSelector(selector.Selector)
//@   ensures [C17] result1 == nil && selector.Selector == nil && selector.Kind != nil ==> dyntype(result0) == typetag("*package-operator.run/pkg/probing.GroupKindSelector") && asptr("package-operator.run/pkg/probing.GroupKindSelector", ival(result0)).GroupKind.Group == asptr("package-operator.run/apis/core/v1alpha1.PackageProbeKindSpec", selector.Kind).Group && asptr("package-operator.run/pkg/probing.GroupKindSelector", ival(result0)).GroupKind.Kind == asptr("package-operator.run/apis/core/v1alpha1.PackageProbeKindSpec", selector.Kind).Kind
//@   ensures [C17] result1 == nil && selector.Selector == nil && selector.Kind == nil ==> result0 == probe

// Whatever the probe list looks like (one probe, several, none), what ParseProbes returns is the generation guard
// around it: a status that lags metadata.generation never passes.
//@ func package-operator.run/internal/probing.ParseProbes
//@   assigns mem
//@   ensures [C03,C17] result1 == nil ==> dyntype(result0) == typetag("*package-operator.run/pkg/probing.ObservedGenerationProbe") && result0 != nil
