//go:build verif

// Contracts for package packagerender (comment-only; read by /verif's govc, never compiled into the product).
package packagerender

//@ props C13
//@ func package-operator.run/internal/packages/internal/packagerender.RenderTemplates
//@   loop 1 orderfree
//@   loop 2 orderfree

//@ func package-operator.run/internal/packages/internal/packagerender.parseObjects
//@   at Unmarshal#1 assert [C13] len(obj.Object) == 0

// The order of the rendered objects is fixed by sorting the file paths and appending each file's documents in document
// order. What is sorted are the keys of a map, hence pairwise distinct: the (unstable) sort cannot reorder equal keys,
// and the result does not depend on the iteration order of the map.
//@ func package-operator.run/internal/packages/internal/packagerender.RenderObjectsWithFilter
//@   at sort.Slice#1 assert [C13] hastype("[]string", arg0) && len(asstruct("[]string", arg0)) == len(pathObjectMap)
//@   at sort.Slice#1 assert [C13] forall a int, b int :: 0 <= a && a < b && b < len(asstruct("[]string", arg0)) ==> asstruct("[]string", arg0)[a] != asstruct("[]string", arg0)[b]
// (the keys are collected either by index into a pre-sized slice or by appending; the invariants are offered for both)
//@   loop 1 invariant? [C13] 0 <= idx && idx == visitedcount() && idx <= len(paths) && len(paths) == len(pathObjectMap)
//@   loop 1 invariant? [C13] forall a int :: 0 <= a && a < idx ==> visited(paths[a])
//@   loop 1 invariant? [C13] forall a int, b int :: 0 <= a && a < b && b < idx ==> paths[a] != paths[b]
//@   loop 1 invariant? [C13] len(paths) == visitedcount()
//@   loop 1 invariant? [C13] forall a int :: 0 <= a && a < len(paths) ==> visited(paths[a])
//@   loop 1 invariant? [C13] forall a int, b int :: 0 <= a && a < b && b < len(paths) ==> paths[a] != paths[b]
