//go:build verif

// Contracts for package packagerender (comment-only; read by /verif's govc, never compiled into the product).
package packagerender

//@ props C13
//@ func package-operator.run/internal/packages/internal/packagerender.RenderTemplates
//@   loop 1 orderfree
//@   loop 2 orderfree

//@ func package-operator.run/internal/packages/internal/packagerender.parseObjects
//@   at Unmarshal#1 assert [C13] len(obj.Object) == 0
