//go:build verif

// Contracts for package packagerender (comment-only; read by /verif's govc, never compiled into the product).
package packagerender

//@ props C13
//@ func package-operator.run/internal/packages/internal/packagerender.RenderTemplates
//@   loop 1 orderfree
//@   loop 2 orderfree
// every template file is parsed before the first one is executed (a definition in one file is visible to all others,
// whatever order the file map is walked in)
//@   after celTemplateFunction ghost tmplExecuted() := false
//@   at ExecuteTemplate ghost tmplExecuted() := true
//@   at Template).Parse assert [C13] !tmplExecuted()

//@ func package-operator.run/internal/packages/internal/packagerender.parseObjects
//@   at Unmarshal#1 assert [C13] len(obj.Object) == 0

// The order of the rendered objects is fixed by sorting the file paths and appending each file's documents in document
// order. What is sorted are the keys of a map, hence pairwise distinct: the (unstable) sort cannot reorder equal keys,
// and the result does not depend on the iteration order of the map.
//@ func package-operator.run/internal/packages/internal/packagerender.RenderObjectsWithFilter
//@   at sort.Slice#1 assert [C13] hastype("[]string", arg0) && len(asstruct("[]string", arg0)) == len(pathObjectMap)
//@   at sort.Slice#1 assert [C13] forall a int, b int :: 0 <= a && a < b && b < len(asstruct("[]string", arg0)) ==> asstruct("[]string", arg0)[a] != asstruct("[]string", arg0)[b]
// (the keys are collected either by index into a pre-sized slice or by appending; the invariants are offered for both)
//@   loop 1 invariant? [C13] 0 <= idx && idx == visitedcount() && idx <= len(paths) && len(paths) == len(pathObjectMap)
//@   loop 1 invariant? [C13] forall a int :: 0 <= a && a < idx ==> visited(paths[a])
//@   loop 1 invariant? [C13] forall a int, b int :: 0 <= a && a < b && b < idx ==> paths[a] != paths[b]
//@   loop 1 invariant? [C13] len(paths) == visitedcount()
//@   loop 1 invariant? [C13] forall a int :: 0 <= a && a < len(paths) ==> visited(paths[a])
//@   loop 1 invariant? [C13] forall a int, b int :: 0 <= a && a < b && b < len(paths) ==> paths[a] != paths[b]

// ---- phases in manifest order, no phase lost or duplicated (phaseCollector.Collect) ----
// the comparison handed to sort.Slice orders by the manifest index
//@ func package-operator.run/internal/packages/internal/packagerender.(phaseCollector).Collect$1
//@   readonly
//@   ensures result == ((*entries)[i].Index < (*entries)[j].Index)

// Ghost witnesses: colKey(a) is the key of the collector entry appended at position a, colPos(k) the position entry k
// was appended at; sortperm(1, a) is where the element at position a after sorting was before.
//@ func package-operator.run/internal/packages/internal/packagerender.(phaseCollector).Collect
//@   at append#1 ghost colKey(len(entries)) := rangekey()
//@   at append#1 ghost colPos(rangekey()) := len(entries)
//@   loop 1 invariant gomem_unchanged() && (cap(entries) == 0 || (fresh(sarr(entries)) && allocated(sarr(entries))))
//@   loop 1 invariant forall a int :: { colKey(a) } 0 <= a && a < len(entries) ==> visited(colKey(a)) && (colKey(a) in c) && entries[a] == c[colKey(a)] && colPos(colKey(a)) == a && len(c[colKey(a)].Phase.Objects) != 0
//@   loop 1 invariant forall k string :: { visited(k) } visited(k) && (k in c) && len(c[k].Phase.Objects) != 0 ==> 0 <= colPos(k) && colPos(k) < len(entries) && colKey(colPos(k)) == k
// after sorting: position a holds the entry of key colKey(sortperm(1, a)), in non-decreasing manifest index
//@   loop 2 invariant entries == loopentry(entries) && (len(entries) == 0 || root(sarr(phases)) != root(sarr(entries)))
//@   loop 2 invariant 0 <= idx && idx <= len(entries) && len(phases) == len(entries) && gomem_unchanged() && (cap(phases) == 0 || (fresh(sarr(phases)) && allocated(sarr(phases))))
//@   loop 2 invariant forall a int :: { sortperm(1, a) } 0 <= a && a < len(entries) ==> (colKey(sortperm(1, a)) in c) && entries[a] == c[colKey(sortperm(1, a))] && len(c[colKey(sortperm(1, a))].Phase.Objects) != 0
//@   loop 2 invariant forall a int, b int :: { entries[a].Index, entries[b].Index } 0 <= a && a < b && b < len(entries) ==> entries[a].Index <= entries[b].Index
//@   loop 2 invariant forall a int :: { phases[a].Name } 0 <= a && a < idx ==> phases[a].Name == entries[a].Phase.Name
//@   loop 2 invariant forall a int :: { phases[a].Class } 0 <= a && a < idx ==> phases[a].Class == entries[a].Phase.Class
//@   loop 2 invariant forall a int :: { phases[a].Objects } 0 <= a && a < idx ==> phases[a].Objects == entries[a].Phase.Objects
//@   loop 2 invariant forall a int :: { phases[a].Slices } 0 <= a && a < idx ==> phases[a].Slices == entries[a].Phase.Slices
// Result: the phases of exactly the non-empty collector entries, each once, ordered by manifest index; the collector
// itself (and everything else that existed) is not written.
//@   ensures [C13] gomem_unchanged()
//@   ensures [C13] forall a int :: { result[a] } 0 <= a && a < len(result) ==> (colKey(sortperm(1, a)) in c) && result[a] == c[colKey(sortperm(1, a))].Phase && len(result[a].Objects) != 0
//@   ensures [C13] forall a int, b int :: { result[a], result[b] } 0 <= a && a < b && b < len(result) ==> c[colKey(sortperm(1, a))].Index <= c[colKey(sortperm(1, b))].Index && colKey(sortperm(1, a)) != colKey(sortperm(1, b))
//@   ensures [C13] forall k string :: { colPos(k) } (k in c) && len(c[k].Phase.Objects) != 0 ==> 0 <= sortperminv(1, colPos(k)) && sortperminv(1, colPos(k)) < len(result) && colKey(sortperm(1, sortperminv(1, colPos(k)))) == k

// Package Operator's control annotations are removed: the annotations an object is collected with contain none of the
// four annotation keys the package format defines (phase, condition-map, collision-protection, CEL condition).
//@ func package-operator.run/internal/packages/internal/packagerender.(phaseCollector).AddObjects
//@   at SetAnnotations assert [C13] arg0 == nil || (!("package-operator.run/phase" in arg0) && !("package-operator.run/condition-map" in arg0) && !("package-operator.run/collision-protection" in arg0) && !("package-operator.run/condition" in arg0))
