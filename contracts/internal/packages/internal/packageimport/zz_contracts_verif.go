//go:build verif

// Contracts for package packageimport (comment-only; read by /verif's govc, never compiled into the product).
// The lock invariant of RequestManager.inFlightLock is declared in /verif/specs/packageimport.spec.
package packageimport

//@ props C20
//@ func package-operator.run/internal/packages/internal/packageimport.(*RequestManager).handleRequest
//@   requires held(&r.inFlightLock) == 0
//@   at go#1 assert [C20] !(image in r.inFlight) && pulls(image) == 0
//@   at go#1 ghost pulls(image) := 1
//@   at Unlock#1 ghost chanImage(recv) := image
//@   at Unlock#1 ghost chanIndex(recv) := len(r.inFlight[image]) - 1

//@ func package-operator.run/internal/packages/internal/packageimport.(*RequestManager).handleResponse
//@   requires held(&r.inFlightLock) == 0
//@   requires [C20] pulls(image) == 1
//@   stable pulls(image) == 1
//@   sink send requires [C20] nonblocking
//@   sink send requires [C20] sendval.RawPackage == nil || (fresh(sendval.RawPackage) && sendval.RawPackage != res.RawPackage)
//@   at delete assert [C20] forall k int :: { r.inFlight[image][k] } 0 <= k && k < len(r.inFlight[image]) ==> chqueued(r.inFlight[image][k]) == 1
//@   at Unlock#1 ghost pulls(image) := 0
//@   loop 1 invariant held(&r.inFlightLock) == 2 && pulls(image) == 1 && (image in r.inFlight) && 0 <= idx
//@   loop 1 invariant gomem_unchanged_in_loop()
//@   loop 1 invariant forall k int :: { r.inFlight[image][k] } 0 <= k && k < idx && k < len(r.inFlight[image]) ==> chqueued(r.inFlight[image][k]) == 1
//@   loop 1 invariant forall k int :: { r.inFlight[image][k] } idx <= k && k < len(r.inFlight[image]) ==> chqueued(r.inFlight[image][k]) == 0 && chcap(r.inFlight[image][k]) == 1
//@   loop 1 invariant forall k int :: { r.inFlight[image][k] } 0 <= k && k < len(r.inFlight[image]) ==> r.inFlight[image][k] != nil && chanImage(r.inFlight[image][k]) == image && chanIndex(r.inFlight[image][k]) == k
//@   loop 1 invariant (forall img string :: img != image ==> (((img in r.inFlight) <==> pulls(img) == 1) && (!(img in r.inFlight) ==> pulls(img) == 0)))
//@   loop 1 invariant forall img string :: img != image && (img in r.inFlight) ==> len(r.inFlight[img]) >= 1
//@   loop 1 invariant forall img string, k int :: { r.inFlight[img][k] } img != image && (img in r.inFlight) && 0 <= k && k < len(r.inFlight[img]) ==> r.inFlight[img][k] != nil && chcap(r.inFlight[img][k]) == 1 && chqueued(r.inFlight[img][k]) == 0 && chanImage(r.inFlight[img][k]) == img && chanIndex(r.inFlight[img][k]) == k

//@ func package-operator.run/internal/packages/internal/packageimport.(*RequestManager).handleRequest$1
//@   requires [C20] pulls(image) == 1
//@   requires held(&r.inFlightLock) == 0
