//go:build verif

// Contracts for package packagevalidation (comment-only; read by /verif's govc, never compiled into the product).
package packagevalidation

//@ props C16
// a package passes the manifest validator only if neither the manifest nor the lock file validation reported an error
//@ func package-operator.run/internal/packages/internal/packagevalidation.(*PackageManifestValidator).doValidatePackage
//@   ensures [C16] result == nil ==> lastManifestErrs() == 0
//@   ensures [C16] result == nil && pkg.ManifestLock != nil ==> lastLockErrs() == 0

// the validator list passes only if every validator in it passed
//@ func package-operator.run/internal/packages/internal/packagevalidation.(PackageValidatorList).ValidatePackage
//@   assigns validatorsFailed, alloc(pkg)
//@   ensures [C16] result == nil ==> validatorsFailed() == old(validatorsFailed())
//@   loop 1 invariant 0 <= idx && (len(errs) == 0 ==> validatorsFailed() == old(validatorsFailed()))
//@   loop 1 invariant gomem_unchanged(alloc(pkg)) && (cap(errs) == 0 || (fresh(sarr(errs)) && allocated(sarr(errs))))
//@   loop 1 invariant forall i int :: 0 <= i && i < len(errs) ==> errs[i] != nil

//@ props C13
// an object passes the phase-annotation validator only if its annotation is, character for character, the name of a
// phase of the manifest (the phase collector looks the phase up by the raw annotation value and drops unknown names)
//@ func package-operator.run/internal/packages/internal/packagevalidation.(*ObjectPhaseAnnotationValidator).validate
//@   ensures [C13] result == nil && obj.Object != nil ==> (exists i int :: 0 <= i && i < len(manifest.Spec.Phases) && manifest.Spec.Phases[i].Name == ann(obj)["package-operator.run/phase"])
//@   ensures [C13] result == nil && obj.Object != nil ==> annHas(obj)["package-operator.run/phase"]
//@   loop 1 invariant 0 <= idx && gomem_unchanged()
