//go:build verif

// Contracts for package packagedeploy (comment-only; read by /verif's govc, never compiled into the product).
package packagedeploy

//@ props C14
//@ func package-operator.run/internal/packages/internal/packagedeploy.(*NoOpChunker).Chunk
//@   readonly
//@   ensures result0 == nil && result1 == nil

//@ func package-operator.run/internal/packages/internal/packagedeploy.(*EachObjectChunker).Chunk
//@   ensures result1 == nil && len(result0) == len(phase.Objects)
//@   ensures forall i int :: { result0[i] } 0 <= i && i < len(result0) ==> len(result0[i]) == 1 && result0[i][0] == old(phase.Objects[i])
//@   loop 1 invariant 0 <= idx && idx <= len(phase.Objects) && len(out) == len(phase.Objects) && fresh(sarr(out))
//@   loop 1 invariant oldmem_unchanged()
//@   loop 1 invariant forall i int :: { out[i] } 0 <= i && i < idx ==> len(out[i]) == 1 && fresh(sarr(out[i])) && allocated(sarr(out[i])) && out[i][0] == old(phase.Objects[i])

//@ func package-operator.run/internal/packages/internal/packagedeploy.(*DeploymentReconciler).reconcileSliceWithCollisionCount
//@   ghost lastSliceOK() := if result == nil then objid(clientObj(slice)) else old(lastSliceOK())
//@   ensures [C14] result == nil ==> lastSliceOK() == objid(clientObj(slice))
//@   sink Client.Create#1 requires [C14] isCtrl(arg1, oid(clientObj(deploy)))
//@   at return#5 assert [C14] isController && isEqual
//@   ensures [C14] result == nil ==> lastCreateOK() || (lastGet() == 2 && lastGetCtrl()[oid(clientObj(deploy))] && lastDeepEq())

// the slice object handed in by the caller is the one that was created or accepted: the caller records its name in the
// deployment's template afterwards
//@ func package-operator.run/internal/packages/internal/packagedeploy.(*DeploymentReconciler).reconcileSlice
//@   ensures [C14] result == nil ==> lastSliceOK() == objid(clientObj(slice))

//@ func package-operator.run/internal/packages/internal/packagedeploy.(*DeploymentReconciler).sliceGarbageCollection
//@   sink Client.Delete#1 requires [C14] !(name(arg1) in referencedSlices)
// the slices considered for deletion are those of this deployment's own namespace (the owner label is only a name)
//@   at Client.List#1 assert [C14] exists k int :: 0 <= k && k < len(varargs) && dyntype(varargs[k]) == typetag("sigs.k8s.io/controller-runtime/pkg/client.InNamespace") && varargs[k] == boxnamed("sigs.k8s.io/controller-runtime/pkg/client.InNamespace", ns(clientObj(deploy)))

//@ props C16
//@ func package-operator.run/internal/packages/internal/packagedeploy.validateConstraints
//@   at SetStatusCondition#1 ghost constraintsFailed() := true
//@   ensures [C16] result == nil ==> constraintsFailed() == old(constraintsFailed())

//@ func package-operator.run/internal/packages/internal/packagedeploy.(*PackageDeployer).Deploy
//@   requires [C16] !constraintsFailed()
//@   sink deploymentReconciler.Reconcile#1 requires [C16] !constraintsFailed()

//@ props C16
// the ObjectDeployment is created only after a NotFound read, and every update request - also a retried one after a
// conflict, which reloads the object - carries the freshly rendered template
//@ func package-operator.run/internal/packages/internal/packagedeploy.(*DeploymentReconciler).Reconcile
//@   sink Client.Create#1 requires [C16] lastGet() == 4
//@   sink Reconcile$1:Client.Update#1 requires [C16] tplVal(arg1) == templateSpec
