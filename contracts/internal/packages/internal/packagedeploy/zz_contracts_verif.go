//go:build verif

// Contracts for package packagedeploy (comment-only; read by /verif's govc, never compiled into the product).
package packagedeploy

//@ props C14
//@ func package-operator.run/internal/packages/internal/packagedeploy.(*NoOpChunker).Chunk
//@   readonly
//@   ensures result0 == nil && result1 == nil

//@ func package-operator.run/internal/packages/internal/packagedeploy.(*EachObjectChunker).Chunk
//@   ensures result1 == nil && len(result0) == len(phase.Objects)
//@   ensures forall i int :: { result0[i] } 0 <= i && i < len(result0) ==> len(result0[i]) == 1 && result0[i][0] == old(phase.Objects[i])
//@   loop 1 invariant 0 <= idx && idx <= len(phase.Objects) && len(out) == len(phase.Objects) && fresh(sarr(out))
//@   loop 1 invariant oldmem_unchanged()
//@   loop 1 invariant forall i int :: { out[i] } 0 <= i && i < idx ==> len(out[i]) == 1 && fresh(sarr(out[i])) && allocated(sarr(out[i])) && out[i][0] == old(phase.Objects[i])

// Bin-packing chunker: the chunks are consecutive runs of the phase's objects. Ghost state: chunkSl(k) is chunk k as it
// was closed, chunkOff(k) the index in phase.Objects at which it starts. Chunk 0 starts at 0, every chunk starts where
// the one before it ends, the last one ends at len(phase.Objects), element j of chunk k is object chunkOff(k)+j, and
// no two chunks (nor the open chunk) share memory - so the in-order concatenation of the chunks is the original list.
// (nil, nil means "no chunking": the phase is used as it is.)
//@ func package-operator.run/internal/packages/internal/packagedeploy.(*BinpackNextFitChunker).Chunk
//@   at append#1 ghost chunkOff(len(chunks)) := idx - len(currentChunk)
//@   at append#1 ghost chunkSl(len(chunks)) := currentChunk
//@   at append#3 ghost chunkOff(len(chunks)) := len(phase.Objects) - len(currentChunk)
//@   at append#3 ghost chunkSl(len(chunks)) := currentChunk
//@   loop 1 invariant 0 <= idx && idx <= len(phase.Objects) && oldmem_unchanged()
//@   loop 1 invariant len(currentChunk) <= idx && fresh(sarr(currentChunk)) && allocated(sarr(currentChunk))
//@   loop 1 invariant fresh(sarr(chunks)) && allocated(sarr(chunks))
//@   loop 1 invariant forall k int :: { chunks[k] } 0 <= k && k < len(chunks) ==> chunks[k] == chunkSl(k)
//@   loop 1 invariant forall k int :: { chunkSl(k) } 0 <= k && k < len(chunks) ==> fresh(sarr(chunkSl(k))) && allocated(sarr(chunkSl(k))) && sarr(chunkSl(k)) != sarr(currentChunk) && 0 <= chunkOff(k) && chunkOff(k) + len(chunkSl(k)) <= idx - len(currentChunk)
//@   loop 1 invariant forall k int :: { chunkSl(k) } 0 <= k && k < len(chunks) - 1 ==> chunkOff(k + 1) == chunkOff(k) + len(chunkSl(k))
//@   loop 1 invariant len(chunks) > 0 ==> chunkOff(0) == 0 && chunkOff(len(chunks) - 1) + len(chunkSl(len(chunks) - 1)) == idx - len(currentChunk)
//@   loop 1 invariant len(chunks) == 0 ==> len(currentChunk) == idx
//@   loop 1 invariant forall k int, j int :: { slice_of("package-operator.run/apis/core/v1alpha1.ObjectSetObject", chunkSl(k))[j].Object.Object } 0 <= k && k < len(chunks) && 0 <= j && j < len(chunkSl(k)) ==> slice_of("package-operator.run/apis/core/v1alpha1.ObjectSetObject", chunkSl(k))[j].Object.Object == phase.Objects[chunkOff(k) + j].Object.Object
//@   loop 1 invariant forall k int, j int :: { slice_of("package-operator.run/apis/core/v1alpha1.ObjectSetObject", chunkSl(k))[j].ConditionMappings } 0 <= k && k < len(chunks) && 0 <= j && j < len(chunkSl(k)) ==> slice_of("package-operator.run/apis/core/v1alpha1.ObjectSetObject", chunkSl(k))[j].ConditionMappings == phase.Objects[chunkOff(k) + j].ConditionMappings
//@   loop 1 invariant forall k int, j int :: { slice_of("package-operator.run/apis/core/v1alpha1.ObjectSetObject", chunkSl(k))[j].CollisionProtection } 0 <= k && k < len(chunks) && 0 <= j && j < len(chunkSl(k)) ==> slice_of("package-operator.run/apis/core/v1alpha1.ObjectSetObject", chunkSl(k))[j].CollisionProtection == phase.Objects[chunkOff(k) + j].CollisionProtection
//@   loop 1 invariant forall j int :: { currentChunk[j].Object.Object } 0 <= j && j < len(currentChunk) ==> currentChunk[j].Object.Object == phase.Objects[idx - len(currentChunk) + j].Object.Object
//@   loop 1 invariant forall j int :: { currentChunk[j].ConditionMappings } 0 <= j && j < len(currentChunk) ==> currentChunk[j].ConditionMappings == phase.Objects[idx - len(currentChunk) + j].ConditionMappings
//@   loop 1 invariant forall j int :: { currentChunk[j].CollisionProtection } 0 <= j && j < len(currentChunk) ==> currentChunk[j].CollisionProtection == phase.Objects[idx - len(currentChunk) + j].CollisionProtection
// (nothing that existed before the call is written: phase.Objects below is the list as handed in)
//@   ensures [C14] gomem_unchanged()
//@   ensures [C14] result1 == nil && len(result0) > 0 ==> chunkOff(0) == 0 && chunkOff(len(result0) - 1) + len(result0[len(result0) - 1]) == old(len(phase.Objects))
//@   ensures [C14] result1 == nil && len(result0) > 0 ==> (forall k int :: { result0[k] } 0 <= k && k < len(result0) ==> result0[k] == chunkSl(k))
//@   ensures [C14] result1 == nil && len(result0) > 0 ==> (forall k int :: { chunkSl(k) } 0 <= k && k < len(result0) - 1 ==> chunkOff(k + 1) == chunkOff(k) + len(chunkSl(k)))
//@   ensures [C14] result1 == nil && len(result0) > 0 ==> (forall k int, j int :: { slice_of("package-operator.run/apis/core/v1alpha1.ObjectSetObject", chunkSl(k))[j].Object.Object } 0 <= k && k < len(result0) && 0 <= j && j < len(chunkSl(k)) ==> slice_of("package-operator.run/apis/core/v1alpha1.ObjectSetObject", chunkSl(k))[j].Object.Object == phase.Objects[chunkOff(k) + j].Object.Object)
//@   ensures [C14] result1 == nil && len(result0) > 0 ==> (forall k int, j int :: { slice_of("package-operator.run/apis/core/v1alpha1.ObjectSetObject", chunkSl(k))[j].ConditionMappings } 0 <= k && k < len(result0) && 0 <= j && j < len(chunkSl(k)) ==> slice_of("package-operator.run/apis/core/v1alpha1.ObjectSetObject", chunkSl(k))[j].ConditionMappings == phase.Objects[chunkOff(k) + j].ConditionMappings)
//@   ensures [C14] result1 == nil && len(result0) > 0 ==> (forall k int, j int :: { slice_of("package-operator.run/apis/core/v1alpha1.ObjectSetObject", chunkSl(k))[j].CollisionProtection } 0 <= k && k < len(result0) && 0 <= j && j < len(chunkSl(k)) ==> slice_of("package-operator.run/apis/core/v1alpha1.ObjectSetObject", chunkSl(k))[j].CollisionProtection == phase.Objects[chunkOff(k) + j].CollisionProtection)

//@ func package-operator.run/internal/packages/internal/packagedeploy.(*DeploymentReconciler).reconcileSliceWithCollisionCount
//@   ghost lastSliceOK() := if result == nil then objid(clientObj(slice)) else old(lastSliceOK())
//@   ensures [C14] result == nil ==> lastSliceOK() == objid(clientObj(slice))
//@   sink Client.Create#1 requires [C14] isCtrl(arg1, oid(clientObj(deploy)))
//@   at return#5 assert [C14] isController && isEqual
//@   ensures [C14] result == nil ==> lastCreateOK() || (lastGet() == 2 && lastGetCtrl()[oid(clientObj(deploy))] && lastDeepEq())

// the slice object handed in by the caller is the one that was created or accepted: the caller records its name in the
// deployment's template afterwards
//@ func package-operator.run/internal/packages/internal/packagedeploy.(*DeploymentReconciler).reconcileSlice
//@   ensures [C14] result == nil ==> lastSliceOK() == objid(clientObj(slice))

//@ func package-operator.run/internal/packages/internal/packagedeploy.(*DeploymentReconciler).sliceGarbageCollection
//@   sink Client.Delete#1 requires [C14] !(name(arg1) in referencedSlices)
// the slices considered for deletion are those of this deployment's own namespace (the owner label is only a name)
//@   at Client.List#1 assert [C14] exists k int :: 0 <= k && k < len(varargs) && dyntype(varargs[k]) == typetag("sigs.k8s.io/controller-runtime/pkg/client.InNamespace") && varargs[k] == boxnamed("sigs.k8s.io/controller-runtime/pkg/client.InNamespace", ns(clientObj(deploy)))

//@ props C16
//@ func package-operator.run/internal/packages/internal/packagedeploy.validateConstraints
//@   at SetStatusCondition#1 ghost constraintsFailed() := true
//@   ensures [C16] result == nil ==> constraintsFailed() == old(constraintsFailed())

//@ func package-operator.run/internal/packages/internal/packagedeploy.(*PackageDeployer).Deploy
//@   requires [C16] !constraintsFailed()
//@   sink deploymentReconciler.Reconcile#1 requires [C16] !constraintsFailed()
// ... and only for a configuration that was admitted against the manifest's schema without violation in this pass
//@   sink deploymentReconciler.Reconcile#1 requires [C16] admittedErrs() == 0

//@ props C16
// the ObjectDeployment is created only after a NotFound read, and every update request - also a retried one after a
// conflict, which reloads the object - carries the freshly rendered template
//@ func package-operator.run/internal/packages/internal/packagedeploy.(*DeploymentReconciler).Reconcile
//@   sink Client.Create#1 requires [C16] lastGet() == 4
//@   sink Reconcile$1:Client.Update#1 requires [C16] tplVal(arg1) == templateSpec

//@ props C14
// The ObjectSets whose slice references protect slices from garbage collection are found through the deployment's
// spec.selector (what ObjectSets of the deployment are labelled to match), in the deployment's namespace.
//@ func package-operator.run/internal/packages/internal/packagedeploy.(*DeploymentReconciler).listObjectSetsForDeployment
//@   after LabelSelectorAsSelector#1 ghost depSelector() := result0
//@   at Client.List#1 assert [C14] exists k int :: 0 <= k && k < len(varargs) && dyntype(varargs[k]) == typetag("sigs.k8s.io/controller-runtime/pkg/client.MatchingLabelsSelector") && asstruct("sigs.k8s.io/controller-runtime/pkg/client.MatchingLabelsSelector", varargs[k]).Selector == depSelector()
