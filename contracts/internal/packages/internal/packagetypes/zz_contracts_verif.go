//go:build verif

// Contracts for package packagetypes (comment-only; read by /verif's govc, never compiled into the product).
package packagetypes

//@ props C20
//@ func package-operator.run/internal/packages/internal/packagetypes.(*RawPackage).DeepCopy
//@   readonly
//@   fresh result
//@   ensures result != nil && fresh(result) && result != rp && fresh(result.Files) && result.Files != rp.Files

//@ func package-operator.run/internal/packages/internal/packagetypes.(Files).DeepCopy
//@   readonly
//@   fresh result
//@   ensures fresh(result) && result != nil
//@   ensures forall k string :: (k in result) <==> (k in f)
//@   ensures forall k string :: (k in result) ==> fresh(sarr(result[k])) && len(result[k]) == len(f[k])
//@   loop 1 invariant oldmem_unchanged()
//@   loop 1 invariant forall k string :: (k in newF) ==> (k in f) && fresh(sarr(newF[k])) && len(newF[k]) == len(f[k])
//@   loop 1 invariant forall k string :: visited(k) && (k in f) ==> (k in newF)
