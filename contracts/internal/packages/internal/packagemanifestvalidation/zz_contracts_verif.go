//go:build verif

// Contracts for package packagemanifestvalidation (comment-only; read by /verif's govc, never compiled into the product).
package packagemanifestvalidation

//@ props C19
// ValidatePackageManifest panics on an error of ValidatePackageConfiguration; that call must therefore be reached only
// for a config schema that validatePackageManifestConfig accepted (schemaOK). The two contracts below are the
// assumption the guard in the code relies on (the schema validation is vendored Kubernetes code, not re-verified here).
//@ func package-operator.run/internal/packages/internal/packagemanifestvalidation.ValidatePackageManifest
//@   requires obj != nil
