//go:build verif

// Contracts for package packagemanifestvalidation (comment-only; read by /verif's govc, never compiled into the product).
package packagemanifestvalidation

//@ props C19
// ValidatePackageManifest panics on an error of ValidatePackageConfiguration; that call must therefore be reached only
// for a config schema that validatePackageManifestConfig accepted (schemaOK). The two contracts below are the
// assumption the guard in the code relies on (the schema validation is vendored Kubernetes code, not re-verified here).
//@ func package-operator.run/internal/packages/internal/packagemanifestvalidation.ValidatePackageManifest
//@   requires obj != nil

//@ props C16
// Admission of a Package's configuration: with a config schema in the manifest, a nil-error return reports exactly the
// violations a schema validation of the (pruned, defaulted) configuration found in this call - there is no way round
// the validation. admittedErrs() hands the count to the deployer, which must not roll out unless it is 0.
//@ func package-operator.run/internal/packages/internal/packagemanifestvalidation.AdmitPackageConfiguration
//@   at validatePackageConfigurationBySchema#1 ghost schemaChecked() := true
//@   after validatePackageConfigurationBySchema#1 ghost schemaErrs() := len(result0)
//@   ghost admittedErrs() := if result1 == nil then len(result0) else 0 - 1
//@   ensures constraintsFailed() == old(constraintsFailed())
//@   ensures [C16] admittedErrs() == (if result1 == nil then len(result0) else 0 - 1)
//@   ensures [C16] result1 == nil && old(manifest.Spec.Config.OpenAPIV3Schema != nil) && !old(schemaChecked()) ==> schemaChecked() && len(result0) == schemaErrs()
