//go:build verif

// Contracts for package preflight (comment-only; read by /verif's govc, never compiled into the product).
package preflight

//@ props C11
//@ func package-operator.run/internal/preflight.CheckAllInPhase
//@   requires len(objs) >= len(phase.Objects)
//@   assigns pfViolations, pfCheckedArr
//@   ghost pfCheckedArr() := if err == nil && len(violations) == 0 then sarr(objs) else 0
//@   ensures err == nil && len(violations) == 0 ==> (forall i int :: 0 <= i && i < len(phase.Objects) ==> pfPassed(checker, owner, objstate(&objs[i])))
//@   ensures pfCheckedArr() == (if err == nil && len(violations) == 0 then sarr(objs) else 0)
//@   ensures failedSoFar() == old(failedSoFar()) && W() == old(W())
//@   loop 1 invariant 0 <= idx && idx <= len(phase.Objects)
//@   loop 1 invariant len(violations) == 0 ==> (forall i int :: 0 <= i && i < idx ==> pfPassed(checker, owner, objstate(&objs[i])))
//@   loop 1 invariant failedSoFar() == old(failedSoFar()) && W() == old(W())
//@   loop 1 invariant gomem_unchanged() && (cap(violations) == 0 || (fresh(sarr(violations)) && allocated(sarr(violations))))
