//go:build verif

// Contracts for package preflight (comment-only; read by /verif's govc, never compiled into the product).
package preflight

//@ props C11
//@ func package-operator.run/internal/preflight.CheckAllInPhase
//@   requires len(objs) >= len(phase.Objects)
//@   assigns pfViolations, pfCheckedArr
//@   ghost pfCheckedArr() := if err == nil && len(violations) == 0 then sarr(objs) else 0
//@   ensures err == nil && len(violations) == 0 ==> (forall i int :: 0 <= i && i < len(phase.Objects) ==> pfPassed(checker, owner, objstate(&objs[i])))
//@   ensures pfCheckedArr() == (if err == nil && len(violations) == 0 then sarr(objs) else 0)
//@   ensures failedSoFar() == old(failedSoFar()) && W() == old(W())
//@   loop 1 invariant 0 <= idx && idx <= len(phase.Objects)
//@   loop 1 invariant len(violations) == 0 ==> (forall i int :: 0 <= i && i < idx ==> pfPassed(checker, owner, objstate(&objs[i])))
//@   loop 1 invariant failedSoFar() == old(failedSoFar()) && W() == old(W())
//@   loop 1 invariant gomem_unchanged() && (cap(violations) == 0 || (fresh(sarr(violations)) && allocated(sarr(violations))))

// The namespace rule (C11): for a namespaced owner, an object that names a namespace must name the owner's. The rule is
// skipped only when the phase in the context is delegated to another controller (class set).
//@ func package-operator.run/internal/preflight.phaseFromContext
//@   trusted
//@   readonly
//@   ensures found ==> phase.Class == ctxPhaseClass(ctx)
//@   ensures !found ==> ctxPhaseClass(ctx) == ""
//@ func package-operator.run/internal/preflight.NewContextWithPhase
//@   trusted
//@   readonly
//@   fresh result
//@   ensures ctxPhaseClass(result) == phase.Class
//@ func package-operator.run/internal/preflight.addPositionToViolations
//@   assigns mem
//@   ensures len(*vs) == old(len(*vs))
//@ func package-operator.run/internal/preflight.(*NamespaceEscalation).Check
//@   ensures [C11] err == nil && len(violations) == 0 && len(ns(owner)) > 0 && ctxPhaseClass(ctx) == "" && len(ns(obj)) > 0 ==> ns(obj) == ns(owner)

// a server-side dry run counts as passed only if the API server accepted it: no violation and no error means the last
// dry-run request (Patch, or Create after NotFound) returned no error
//@ func package-operator.run/internal/preflight.(*DryRun).Check
//@   sink Writer.Patch#1 requires [C11] dryrun
//@   sink Writer.Create#1 requires [C11] dryrun
//@   ensures [C11] err == nil && len(violations) == 0 ==> lastWriteOK()

// An ObjectSet that lists the same object twice is refused: whenever two different positions of the phases hold
// objects with the same group, kind, namespace and name (whatever their API versions), a violation is reported.
// dupKeyOf is the key the check records per object; it is a function of exactly those four parts. (Stated for objects
// whose content map is not nil - an object decoded from the API always has one.)
//@ func package-operator.run/internal/preflight.(*ObjectDuplicate).Check
//@   ensures [C11] err == nil
//@   ensures [C11] forall a int, i int, b int, j int :: 0 <= a && a < len(phases) && 0 <= i && i < len(phases[a].Objects) && phases[a].Objects[i].Object.Object != nil && 0 <= b && b < len(phases) && 0 <= j && j < len(phases[b].Objects) && phases[b].Objects[j].Object.Object != nil && (a != b || i != j) && grp(phases[a].Objects[i].Object) == grp(phases[b].Objects[j].Object) && kind(phases[a].Objects[i].Object) == kind(phases[b].Objects[j].Object) && ns(phases[a].Objects[i].Object) == ns(phases[b].Objects[j].Object) && name(phases[a].Objects[i].Object) == name(phases[b].Objects[j].Object) ==> len(violations) > 0
//@   loop 1 invariant gomem_unchanged(maps) && 0 <= idx && idx <= len(phases) && (cap(violations) == 0 || (fresh(sarr(violations)) && allocated(sarr(violations))))
//@   loop 2 invariant gomem_unchanged(maps) && 0 <= idx && 0 <= idx1 && idx1 < len(phases) && (cap(violations) == 0 || (fresh(sarr(violations)) && allocated(sarr(violations))))
//@   loop 1 invariant [C11] forall a int, i int :: 0 <= a && a < len(phases) && 0 <= i && i < len(phases[a].Objects) && phases[a].Objects[i].Object.Object != nil && a < idx ==> (dupKeyOf(phases[a].Objects[i].Object) in visited)
//@   loop 1 invariant [C11] len(violations) == 0 ==> (forall a int, i int, b int, j int :: 0 <= a && a < len(phases) && 0 <= i && i < len(phases[a].Objects) && phases[a].Objects[i].Object.Object != nil && 0 <= b && b < len(phases) && 0 <= j && j < len(phases[b].Objects) && phases[b].Objects[j].Object.Object != nil && a < idx && b < idx && (a != b || i != j) ==> dupKeyOf(phases[a].Objects[i].Object) != dupKeyOf(phases[b].Objects[j].Object))
//@   loop 2 invariant [C11] forall a int, i int :: 0 <= a && a < len(phases) && 0 <= i && i < len(phases[a].Objects) && phases[a].Objects[i].Object.Object != nil && (a < idx1 || (a == idx1 && i < idx)) ==> (dupKeyOf(phases[a].Objects[i].Object) in visited)
//@   loop 2 invariant [C11] len(violations) == 0 ==> (forall a int, i int, b int, j int :: 0 <= a && a < len(phases) && 0 <= i && i < len(phases[a].Objects) && phases[a].Objects[i].Object.Object != nil && 0 <= b && b < len(phases) && 0 <= j && j < len(phases[b].Objects) && phases[b].Objects[j].Object.Object != nil && (a < idx1 || (a == idx1 && i < idx)) && (b < idx1 || (b == idx1 && j < idx)) && (a != b || i != j) ==> dupKeyOf(phases[a].Objects[i].Object) != dupKeyOf(phases[b].Objects[j].Object))

// An object that brings ownerReferences of its own - controller reference or not - is refused.
//@ func package-operator.run/internal/preflight.(*NoOwnerReferences).Check
//@   ensures [C11] err == nil
//@   ensures [C11] old(ownerRefCount(obj)) != 0 ==> len(violations) > 0
