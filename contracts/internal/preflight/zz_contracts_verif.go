//go:build verif

// Contracts for package preflight (comment-only; read by /verif's govc, never compiled into the product).
package preflight

//@ props C11
//@ func package-operator.run/internal/preflight.CheckAllInPhase
//@   requires len(objs) >= len(phase.Objects)
//@   assigns pfViolations, pfCheckedArr
//@   ghost pfCheckedArr() := if err == nil && len(violations) == 0 then sarr(objs) else 0
//@   ensures err == nil && len(violations) == 0 ==> (forall i int :: 0 <= i && i < len(phase.Objects) ==> pfPassed(checker, owner, objstate(&objs[i])))
//@   ensures pfCheckedArr() == (if err == nil && len(violations) == 0 then sarr(objs) else 0)
//@   ensures failedSoFar() == old(failedSoFar()) && W() == old(W())
//@   loop 1 invariant 0 <= idx && idx <= len(phase.Objects)
//@   loop 1 invariant len(violations) == 0 ==> (forall i int :: 0 <= i && i < idx ==> pfPassed(checker, owner, objstate(&objs[i])))
//@   loop 1 invariant failedSoFar() == old(failedSoFar()) && W() == old(W())
//@   loop 1 invariant gomem_unchanged() && (cap(violations) == 0 || (fresh(sarr(violations)) && allocated(sarr(violations))))

// The namespace rule (C11): for a namespaced owner, an object that names a namespace must name the owner's. The rule is
// skipped only when the phase in the context is delegated to another controller (class set).
//@ func package-operator.run/internal/preflight.phaseFromContext
//@   trusted
//@   readonly
//@   ensures found ==> phase.Class == ctxPhaseClass(ctx)
//@   ensures !found ==> ctxPhaseClass(ctx) == ""
//@ func package-operator.run/internal/preflight.NewContextWithPhase
//@   trusted
//@   readonly
//@   fresh result
//@   ensures ctxPhaseClass(result) == phase.Class
//@ func package-operator.run/internal/preflight.addPositionToViolations
//@   assigns mem
//@   ensures len(*vs) == old(len(*vs))
//@ func package-operator.run/internal/preflight.(*NamespaceEscalation).Check
//@   ensures [C11] err == nil && len(violations) == 0 && len(ns(owner)) > 0 && ctxPhaseClass(ctx) == "" && len(ns(obj)) > 0 ==> ns(obj) == ns(owner)

// a server-side dry run counts as passed only if the API server accepted it: no violation and no error means the last
// dry-run request (Patch, or Create after NotFound) returned no error
//@ func package-operator.run/internal/preflight.(*DryRun).Check
//@   sink Writer.Patch#1 requires [C11] dryrun
//@   sink Writer.Create#1 requires [C11] dryrun
//@   ensures [C11] err == nil && len(violations) == 0 ==> lastWriteOK()
