//go:build verif

// Contracts for package utils (comment-only; read by /verif's govc, never compiled into the product).
package utils

//@ props C13
//@ func package-operator.run/internal/utils.DeepHashObject
//@   at Fprintf#1 assert [C13] printer.SortKeys && printer.SpewKeys && printer.DisableMethods
