//go:build verif

// Contracts for package internal/adapters (comment-only; read by /verif's govc, never compiled into the product).
package adapters

//@ props C09
// The accessor model the ObjectDeployment contracts trust ("GetPausedByParent() == pausedByParent(recv)", "SetActiveByParent
// clears it, SetPausedByParent sets it") is checked against the adapters themselves: the mark is the annotation
// package-operator.run/paused-by-parent with value "true" on a paused ObjectSet; releasing removes it, so an ObjectSet
// that was released once is not taken for "paused by the parent" when somebody else pauses it later.
//@ func package-operator.run/internal/adapters.(*ObjectSetAdapter).GetPausedByParent
//@   readonly
//@   ensures [C09] result == (a.Spec.LifecycleState == "Paused" && ("package-operator.run/paused-by-parent" in a.Annotations) && a.Annotations["package-operator.run/paused-by-parent"] == "true")
//@ func package-operator.run/internal/adapters.(*ObjectSetAdapter).SetPausedByParent
//@   ensures [C09] a.Spec.LifecycleState == "Paused" && ("package-operator.run/paused-by-parent" in a.Annotations) && a.Annotations["package-operator.run/paused-by-parent"] == "true"
//@ func package-operator.run/internal/adapters.(*ObjectSetAdapter).SetActiveByParent
//@   ensures [C09] a.Spec.LifecycleState == "Active" && !("package-operator.run/paused-by-parent" in a.Annotations)
//@ func package-operator.run/internal/adapters.(*ClusterObjectSetAdapter).GetPausedByParent
//@   readonly
//@   ensures [C09] result == (a.Spec.LifecycleState == "Paused" && ("package-operator.run/paused-by-parent" in a.Annotations) && a.Annotations["package-operator.run/paused-by-parent"] == "true")
//@ func package-operator.run/internal/adapters.(*ClusterObjectSetAdapter).SetPausedByParent
//@   ensures [C09] a.Spec.LifecycleState == "Paused" && ("package-operator.run/paused-by-parent" in a.Annotations) && a.Annotations["package-operator.run/paused-by-parent"] == "true"
//@ func package-operator.run/internal/adapters.(*ClusterObjectSetAdapter).SetActiveByParent
//@   ensures [C09] a.Spec.LifecycleState == "Active" && !("package-operator.run/paused-by-parent" in a.Annotations)
