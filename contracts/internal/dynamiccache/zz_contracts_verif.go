//go:build verif

// Contracts for package dynamiccache (comment-only; read by /verif's govc, never compiled into the product).
// The lock invariant of Cache.informerReferencesMux is declared in /verif/specs/dynamiccache.spec.
package dynamiccache

//@ props C12
//@ func package-operator.run/internal/dynamiccache.(*InformerMap).Delete
//@   ensures result == nil

//@ func package-operator.run/internal/dynamiccache.(*Cache).ownerRef
//@   readonly

//@ func package-operator.run/internal/dynamiccache.(*Cache).list
//@   requires held(&c.informerReferencesMux) >= 1
//@   requires forall g GVK :: (g in c.informerReferences) ==> running(c.informerMap, g)
//@   sink informerMap.Get#1 requires [C12] held(&c.informerReferencesMux) >= 1 && (arg1 in c.informerReferences)
//@   ensures gomem_unchanged() && running(c.informerMap) == old(running(c.informerMap)) && attached() == old(attached()) && held(&c.informerReferencesMux) == old(held(&c.informerReferencesMux))

//@ func package-operator.run/internal/dynamiccache.(*Cache).sampleMetrics
//@   requires held(&c.informerReferencesMux) >= 1
//@   requires forall g GVK :: (g in c.informerReferences) ==> running(c.informerMap, g)
//@   ensures gomem_unchanged() && running(c.informerMap) == old(running(c.informerMap)) && attached() == old(attached()) && held(&c.informerReferencesMux) == old(held(&c.informerReferencesMux))
//@   loop 1 invariant gomem_unchanged() && running(c.informerMap) == old(running(c.informerMap)) && attached() == old(attached()) && held(&c.informerReferencesMux) == old(held(&c.informerReferencesMux))

//@ func package-operator.run/internal/dynamiccache.(*Cache).Get
//@   requires held(&c.informerReferencesMux) == 0
//@   sink informerMap.Get#1 requires [C12] held(&c.informerReferencesMux) >= 1 && (arg1 in c.informerReferences)

//@ func package-operator.run/internal/dynamiccache.(*Cache).List
//@   requires held(&c.informerReferencesMux) == 0

//@ func package-operator.run/internal/dynamiccache.(*Cache).OwnersForGKV
//@   requires held(&c.informerReferencesMux) == 0

//@ func package-operator.run/internal/dynamiccache.(*Cache).Watch
//@   requires held(&c.informerReferencesMux) == 0
//@   sink informerMap.Get#1 requires [C12] held(&c.informerReferencesMux) == 2

//@ func package-operator.run/internal/dynamiccache.(*Cache).Free
//@   requires held(&c.informerReferencesMux) == 0
//@   sink informerMap.Delete#1 requires [C12] held(&c.informerReferencesMux) == 2 && len(refs) == 0
//@   loop 1 invariant held(&c.informerReferencesMux) == 2
//@   loop 1 invariant forall g GVK :: (g in c.informerReferences) <==> running(c.informerMap, g)
//@   loop 1 invariant forall g GVK :: (g in c.informerReferences) ==> len(c.informerReferences[g]) > 0 && c.informerReferences[g] != c.informerReferences
//@   loop 1 invariant forall g GVK :: (g in c.informerReferences) ==> attached(g)
//@   loop 1 invariant forall g1 GVK, g2 GVK :: (g1 in c.informerReferences) && (g2 in c.informerReferences) && g1 != g2 ==> c.informerReferences[g1] != c.informerReferences[g2]
//@   loop 1 invariant forall g GVK :: (g in c.informerReferences) ==> loopentry(g in c.informerReferences)
//@   loop 1 invariant forall g GVK :: visited(g) && (g in c.informerReferences) ==> !(ownerRef in c.informerReferences[g])
//@   ensures [C12] result == nil ==> (forall g GVK :: (g in c.informerReferences) ==> !(ownerRef in c.informerReferences[g]))

// an informer is shared by all owners of a kind and lives until the last of them frees it: its list/watch calls must
// not be bound to the context of the Watch call that happened to start it
//@ func package-operator.run/internal/dynamiccache.(*InformerMap).addInformerToMap
//@   at createListWatch#1 assert [C12] arg0 == ctxBackground()

// every event source a controller starts is registered as a handler of its own: registrations are only ever added,
// the list grows by exactly the new one (every informer started later attaches all of them; that the earlier entries keep their
// contents is not claimed: the solvers do not discharge the element-wise frame of append on struct elements in time)
//@ func package-operator.run/internal/dynamiccache.(cacheSettings[Request]).Start[sigs.k8s.io/controller-runtime/pkg/reconcile.Request]
//@   ensures [C12] result == nil ==> len(e.source.handlers) == old(len(e.source.handlers)) + 1
//@   ensures [C12] result == nil ==> e.source.handlers[len(e.source.handlers) - 1].handler == e.handler && e.source.handlers[len(e.source.handlers) - 1].queue == queue

//@ props C18
// A change to any watched object wakes its watchers: every update event - whatever changed, spec, status or metadata -
// looks up and enqueues the watchers of the new and of the old object (enqLookups() counts the lookups of this call).
//@ func package-operator.run/internal/dynamiccache.(*EnqueueWatchingObjects).Update
//@   at enqueueWatchers ghost enqLookups() := enqLookups() + 1
//@   at enqueueWatchers#1 assert [C18] arg0 == evt.ObjectNew
//@   ensures [C18] enqLookups() == old(enqLookups()) + 2
//@ func package-operator.run/internal/dynamiccache.(*EnqueueWatchingObjects).Create
//@   at enqueueWatchers ghost enqLookups() := enqLookups() + 1
//@   ensures [C18] enqLookups() == old(enqLookups()) + 1
//@ func package-operator.run/internal/dynamiccache.(*EnqueueWatchingObjects).Delete
//@   at enqueueWatchers ghost enqLookups() := enqLookups() + 1
//@   ensures [C18] enqLookups() == old(enqLookups()) + 1
