//go:build verif

// Contracts for package internal/controllers/packages (comment-only; read by /verif's govc, never compiled into the product).
package packages

//@ props C16
// The hash recorded in status.unpackedHash after a successful unpack is the very value the short-circuit "already
// unpacked" compares against: an unchanged Package is then skipped on the next pass, and any change of spec, image
// prefix overrides or hash modifier makes the comparison fail and the package is pulled and rendered again.
//@ func package-operator.run/internal/controllers/packages.(*unpackReconciler).Reconcile
//@   at GetUnpackedHash#1 ghost hashCompared() := specHash
//@   at SetUnpackedHash#1 assert [C16] arg0 == hashCompared()
//@   at imagePuller.Pull#1 assert [C16] unpackedHash(pkg) != hashCompared()

//@ props C09,C16
// Pausing a Package pauses its ObjectDeployment and is hands-off: the pause value written to the ObjectDeployment is
// the Package's, and no sub-reconciler (unpack, deploy) runs for a paused Package - whether or not its
// ObjectDeployment exists yet.
//@ func package-operator.run/internal/controllers/packages.(*GenericPackageController).Reconcile
//@   sink reconciler.Reconcile#1 requires [C09] !depPaused(pkg)
//@   loop @reconciler.Reconcile invariant [C09] !depPaused(pkg)
//@   sink Client.Update#1 requires [C09] depPaused(objDep) == depPaused(pkg)
// writes to the Package object itself (legacy finalizer, status) are not restricted by the pause
//@   sink handleDeletion:Client.Update#1 requires [C09] true
//@   sink RemoveFinalizer:Client.Patch#1 requires [C09] true
//@   sink updateStatus:SubResourceWriter.Update requires [C09] true
// What a pass found (Unpacked=False after a failed pull, Invalid, ...) is persisted: every pass over a live Package that
// got as far as looking up its ObjectDeployment and ends without error has sent the status update - also when a
// sub-reconciler only asks to come back later.
//@   after Client.Get#2 ghost pkgLive() := true
//@   after updateStatus ghost pkgStatusSent() := true
//@   loop @reconciler.Reconcile invariant [C16] pkgLive() == loopentry(pkgLive()) && pkgStatusSent() == loopentry(pkgStatusSent())
//@   ensures [C16] err == nil && pkgLive() && !old(pkgLive()) && !old(pkgStatusSent()) ==> pkgStatusSent()
