//go:build verif

// Contracts for package internal/controllers/packages (comment-only; read by /verif's govc, never compiled into the product).
package packages

//@ props C16
// The hash recorded in status.unpackedHash after a successful unpack is the very value the short-circuit "already
// unpacked" compares against: an unchanged Package is then skipped on the next pass, and any change of spec, image
// prefix overrides or hash modifier makes the comparison fail and the package is pulled and rendered again.
//@ func package-operator.run/internal/controllers/packages.(*unpackReconciler).Reconcile
//@   at GetUnpackedHash#1 ghost hashCompared() := specHash
//@   at SetUnpackedHash#1 assert [C16] arg0 == hashCompared()
//@   at imagePuller.Pull#1 assert [C16] unpackedHash(pkg) != hashCompared()
