//go:build verif

// Contracts for package objectsets (comment-only; read by /verif's govc, never compiled into the product).
package objectsets

//@ props C03,C04,C05,C06,C08,C11
//@ func package-operator.run/internal/controllers/objectsets.(*objectSetPhasesReconciler).reconcileLocalPhase
//@   requires [C03] !failedSoFar()
//@   requires [C03] probe == parsedProbe()
//@   requires [C11] len(phase.Class) == 0
//@   ghost failedSoFar() := old(failedSoFar()) || result2 != nil || !(len(result1.PhaseName) == 0 && len(result1.FailedProbes) == 0)
//@   ensures [C03] failedSoFar() == (old(failedSoFar()) || result2 != nil || !(len(result1.PhaseName) == 0 && len(result1.FailedProbes) == 0))
//@   ensures tdPending() == old(tdPending())

//@ func package-operator.run/internal/controllers/objectsets.(*objectSetPhasesReconciler).reconcilePhase
//@   requires [C03] !failedSoFar()
//@   requires [C03] probe == parsedProbe()
//@   ghost failedSoFar() := old(failedSoFar()) || result2 != nil || !(len(result1.PhaseName) == 0 && len(result1.FailedProbes) == 0)
//@   ensures [C03] failedSoFar() == (old(failedSoFar()) || result2 != nil || !(len(result1.PhaseName) == 0 && len(result1.FailedProbes) == 0))
//@   ensures tdPending() == old(tdPending())

// the phases are gated on the availability probes of this ObjectSet as parsed in this pass (parsedProbe() is the prober
// the most recent Parse of this pass returned; it is handed down unchanged to the phase reconciler)
//@ func package-operator.run/internal/controllers/objectsets.(*objectSetPhasesReconciler).reconcile
//@   requires [C03] !failedSoFar()
//@   at Parse#1 assert [C03] arg1 == probesOf(objectSet)
//@   after Parse#1 ghost parsedProbe() := result0
//@   loop @reconcilePhase|reconcileLocalPhase invariant [C03] parsedProbe() == loopentry(parsedProbe())
// status.controllerOf is gathered from every phase that was reconciled in this pass, the failing one included (an
// unavailable revision is archived only if it controls nothing the next revision contains - decided from this list)
//@   after reconcilePhase|reconcileLocalPhase|remotePhaseReconciler.Reconcile ghost ctrlGathered() := ctrlGathered() + len(result0)
//@   loop @reconcilePhase|reconcileLocalPhase invariant [C06,C08] len(controllerOfAll) == ctrlGathered() - old(ctrlGathered())
//@   ensures [C06,C08] result2 == nil ==> len(result0) == ctrlGathered() - old(ctrlGathered())
//@   ghost failedSoFar() := old(failedSoFar()) || result2 != nil || !(len(result1.PhaseName) == 0 && len(result1.FailedProbes) == 0)
//@   ensures failedSoFar() == (old(failedSoFar()) || result2 != nil || !(len(result1.PhaseName) == 0 && len(result1.FailedProbes) == 0))
//@   loop 1 invariant [C03] !failedSoFar()

//@ func package-operator.run/internal/controllers/objectsets.reverse
//@   assigns mem
//@   ensures len(s) == old(len(s))
//@   ensures forall k int :: 0 <= k && k < len(s) ==> s[k] == old(s[len(s) - 1 - k])
//@   ensures forall k int :: 0 <= k && k < len(s) ==> s[k].Name == old(s[len(s) - 1 - k].Name)
//@   loop 1 invariant 0 <= i && j == len(s) - 1 - i && i <= j + 1
//@   loop 1 invariant forall k int :: (0 <= k && k < i) || (j < k && k < len(s)) ==> s[k] == old(s[len(s) - 1 - k])
//@   loop 1 invariant forall k int :: i <= k && k <= j ==> s[k] == old(s[k])

//@ func package-operator.run/internal/controllers/objectsets.(*objectSetPhasesReconciler).teardownPhase
//@   requires [C04] !tdPending()
//@   requires [C05] !finalizers(clientObj(objectSet))["orphan"]
//@   ensures finalizers(clientObj(objectSet)) == old(finalizers(clientObj(objectSet)))
//@   ghost tdPending() := old(tdPending()) || err != nil || !cleanupDone
//@   ensures [C04] tdPending() == (old(tdPending()) || err != nil || !cleanupDone)
//@   ensures gomem_unchanged()

//@ func package-operator.run/internal/controllers/objectsets.(*objectSetPhasesReconciler).Teardown
//@   requires [C04] !tdPending()
//@   loop 1 invariant [C04] !tdPending()
//@   loop 1 invariant 0 <= idx
//@   loop 1 invariant [C05] !finalizers(clientObj(objectSet))["orphan"]
//@   loop 1 invariant gomem_unchanged_in_loop()
//@   at teardownPhase#1 assert [C04] idx < old(len(phasesOf(objectSet)))
//@   at teardownPhase#1 assert [C04] arg2.Name == old(slice_of("package-operator.run/apis/core/v1alpha1.ObjectSetTemplatePhase", phasesOf(objectSet))[len(phasesOf(objectSet)) - 1 - idx].Name)
//@   ensures [C04] cleanupDone && err == nil ==> old(finalizers(clientObj(objectSet))["orphan"]) || !tdPending()
// done is reported only after the teardown of every phase was asked for (and, by the clause above, confirmed)
//@   at teardownPhase|remotePhaseReconciler.Teardown|phaseReconciler.TeardownPhase ghost tdCalls() := tdCalls() + 1
//@   loop 1 invariant [C04] tdCalls() == old(tdCalls()) + idx && idx <= old(len(phasesOf(objectSet)))
//@   ensures [C04] cleanupDone && err == nil ==> old(finalizers(clientObj(objectSet))["orphan"]) || tdCalls() == old(tdCalls()) + old(len(phasesOf(objectSet)))

//@ props C04,C06,C14
//@ func package-operator.run/internal/controllers/objectsets.(*GenericObjectSetController).handleDeletionAndArchival
//@   requires [C04] !tdPending()
//@   ensures [C06] condSt(condsPtr(objectSet), "Available") == 0
//@   requires [C06] !archivedNow()
//@   at SetStatusCondition ghost archivedNow() := archivedNow() || (arg1.Type == "Archived" && arg1.Status == "True")
//@   ensures [C06] archivedNow() ==> len(ctrlOfSlice(objectSet)) == 0
//@   ensures [C06] archivedNow() ==> condSt(condsPtr(objectSet), "Archived") == 1
//@   at FreeCacheAndRemoveFinalizer#1 assert [C04] !old(finalizers(clientObj(objectSet))["package-operator.run/cached"]) || !tdPending()

//@ props C15
// status.remotePhases records the delegated phase object under its current UID (adoption from a delegated previous
// revision matches owner references by name and UID against this list)
//@ func package-operator.run/internal/controllers/objectsets.addRemoteObjectSetPhase
//@   ensures [C15] exists k int :: 0 <= k && k < len(result) && result[k].Name == ref.Name && result[k].UID == ref.UID
//@   ensures [C15] forall k int :: 0 <= k && k < len(refs) && old(refs[k].Name) != ref.Name ==> result[k] == old(refs[k])
//@   ensures [C15] len(result) >= len(refs)
//@   loop 1 invariant 0 <= idx && idx <= len(refs) && gomem_unchanged()
//@   loop 1 invariant forall k int :: 0 <= k && k < idx ==> refs[k].Name != ref.Name

//@ props C03,C06,C09,C15
//@ func package-operator.run/internal/controllers/objectsets.(*objectSetRemotePhaseReconciler).Reconcile
// whenever a delegated phase is reconciled without error, its paused flag agrees with the ObjectSet's or a patch
// setting it was accepted - also when the phase has not reported a status yet
//@   requires [C09] !patchedPause() && !pauseHandedOver()
//@   at Client.Patch#1 ghost patchedPause() := true
//@   at FindStatusCondition#1 ghost pauseHandedOver() := patchedPause() || phasePaused(clientObj(currentObjectSetPhase)) == phasePaused(clientObj(desiredObjectSetPhase))
//@   ensures [C09] result2 == nil && len(phase.Class) > 0 ==> pauseHandedOver()
//@   sink Client.Create#1 requires [C15] getResult(clientObj(currentObjectSetPhase)) == 4 || lastGet() == 4
//@   sink Client.Patch#1 requires [C09,C15] true
// the pause patch goes out for - and its response, with the bumped generation, comes back into - the very phase object
// whose reported status is evaluated afterwards
//@   sink Client.Patch#1 requires [C03,C06,C15] objid(arg1) == objid(clientObj(currentObjectSetPhase))
//@   at return#7 assert [C03,C06,C15] availableCond != nil && availableCond.ObservedGeneration == genOf(objstate(clientObj(currentObjectSetPhase)))

//@ props C03,C06
//@ func package-operator.run/internal/controllers/objectsets.(*objectSetPhasesReconciler).Reconcile
//@   requires [C03] !failedSoFar()
// (stated for every condition write of the function and of helpers split off it, whatever their order)
//@   at SetStatusCondition assert [C06] arg1.Type == "Available" && arg1.Status == "True" ==> !failedSoFar()
//@   at SetStatusCondition assert [C06] arg1.Type == "Succeeded" ==> !failedSoFar() && !inTransition

// an ObjectSet that is not archived, lists objects in its spec and was seen to control nothing is in transition
// (InTransition is cleared only if every object in spec was seen under the ObjectSet's control; this is the instance
// of that statement with an empty controllerOf list)
//@ func package-operator.run/internal/controllers/objectsets.isObjectSetInTransition
//@   readonly
//@   ensures [C06] !result && !archivedOS(objectSet) && len(controllerOf) == 0 ==> (forall i int :: 0 <= i && i < len(slice_of("package-operator.run/apis/core/v1alpha1.ObjectSetTemplatePhase", phasesOf(objectSet))) ==> len(slice_of("package-operator.run/apis/core/v1alpha1.ObjectSetTemplatePhase", phasesOf(objectSet))[i].Objects) == 0)
//@   loop 1 invariant gomem_unchanged() && 0 <= idx && idx <= len(slice_of("package-operator.run/apis/core/v1alpha1.ObjectSetTemplatePhase", phasesOf(objectSet)))
//@   loop 1 invariant [C06] len(allObjectsThatMayBeUnderManagement) > 0 || (forall i int :: 0 <= i && i < idx ==> len(slice_of("package-operator.run/apis/core/v1alpha1.ObjectSetTemplatePhase", phasesOf(objectSet))[i].Objects) == 0)
//@   loop 2 invariant gomem_unchanged() && 0 <= idx
//@   loop 2 invariant [C06] len(allObjectsThatMayBeUnderManagement) > 0 || (idx == 0 && (forall i int :: 0 <= i && i < idx1 ==> len(slice_of("package-operator.run/apis/core/v1alpha1.ObjectSetTemplatePhase", phasesOf(objectSet))[i].Objects) == 0))
//@   loop 3 invariant gomem_unchanged() && 0 <= idx && idx <= len(controllerOf)
//@   loop 3 invariant [C06] idx == 0 ==> len(allObjectsThatMayBeUnderManagement) == loopentry(len(allObjectsThatMayBeUnderManagement))
//@   loop 4 invariant gomem_unchanged()

//@ props C14
// every ObjectSlice named by a phase is read (and its objects appended to that phase) before the pass goes on
//@ func package-operator.run/internal/controllers/objectsets.(*objectSliceLoadReconciler).Reconcile
//@   at Client.Get#1 ghost sliceFetched(slice) := true
//@   sink Client.Update#1 requires [C14] true
//@   ensures [C14] err == nil ==> (forall i int, j int :: 0 <= i && i < old(len(slice_of("package-operator.run/apis/core/v1alpha1.ObjectSetTemplatePhase", phasesOf(objectSet)))) && 0 <= j && j < len(old(slice_of("package-operator.run/apis/core/v1alpha1.ObjectSetTemplatePhase", phasesOf(objectSet))[i].Slices)) ==> sliceFetched(old(slice_of("package-operator.run/apis/core/v1alpha1.ObjectSetTemplatePhase", phasesOf(objectSet))[i].Slices[j])))
//@   loop 1 invariant 0 <= idx && idx <= len(phases)
//@   loop 1 invariant forall i int :: 0 <= i && i < len(phases) ==> phases[i].Slices == old(phases[i].Slices)
//@   loop 1 invariant forall i int, j int :: 0 <= i && i < len(phases) && 0 <= j && j < len(phases[i].Slices) ==> phases[i].Slices[j] == old(phases[i].Slices[j])
//@   loop 1 invariant forall i int, j int :: 0 <= i && i < idx && 0 <= j && j < len(phases[i].Slices) ==> sliceFetched(phases[i].Slices[j])
//@   loop 2 invariant phase.Slices == loopentry(phase.Slices)
//@   loop 2 invariant forall i int :: 0 <= i && i < len(phases) ==> phases[i].Slices == old(phases[i].Slices)
//@   loop 2 invariant forall i int, j int :: 0 <= i && i < len(phases) && 0 <= j && j < len(phases[i].Slices) ==> phases[i].Slices[j] == old(phases[i].Slices[j])
//@   loop 2 invariant 0 <= idx && idx <= len(phase.Slices)
//@   loop 2 invariant forall i int, j int :: 0 <= i && i < idx1 && 0 <= j && j < len(phases[i].Slices) ==> sliceFetched(phases[i].Slices[j])
//@   loop 2 invariant forall j int :: 0 <= j && j < idx ==> sliceFetched(phase.Slices[j])

//@ props C08
// The ObjectSet confirms the pause (Paused=True is what the ObjectDeployment waits for before archiving) only when
// every delegated phase was read and reported Paused in this pass.
//@ func package-operator.run/internal/controllers/objectsets.(*GenericObjectSetController).areRemotePhasesPaused
//@   after IsStatusConditionTrue#1 ghost sawUnpaused() := sawUnpaused() || !result
//@   loop 1 invariant 0 <= idx && (old(sawUnpaused()) ==> sawUnpaused())
//@   loop 1 invariant idx <= old(len(remotePhasesOf(objectSet))) && remotePhasesOf(objectSet) == old(remotePhasesOf(objectSet))
//@   loop 1 invariant? loopint <= idx && (sawUnpaused() && !old(sawUnpaused()) ==> loopint < idx)
//@   loop 1 invariant? loopbool ==> !sawUnpaused() || old(sawUnpaused())
//@   ensures [C08] arePaused && err == nil && !old(sawUnpaused()) ==> !sawUnpaused()
//@   ensures [C08] arePaused ==> !unknown && err == nil

//@ props C04,C06,C09,C14
// The finalizer that holds the ObjectSet until teardown is done is persisted before anything of this pass can create
// or adopt an object: the sub-reconcilers (revision, slices, phases) run only after EnsureCachedFinalizer succeeded.
//@ func package-operator.run/internal/controllers/objectsets.(*GenericObjectSetController).Reconcile
// (a pass starts with its pass-scoped ghost state cleared)
//@   requires !tdPending() && !archivedNow() && !subErr() && !errReported()
//@   at reconciler.Reconcile assert [C04] finEnsured(clientObj(objectSet))
//@   loop @reconciler.Reconcile invariant [C04] finEnsured(clientObj(objectSet))
// an error of a sub-reconciler (e.g. a referenced ObjectSlice that cannot be read yet) is never dropped: the pass
// either returns an error (and is retried) or hands it to the status reporting - a sliced ObjectSet whose slice is
// late is retried like any other failure instead of going idle
//@   after reconciler.Reconcile ghost subErr() := result1 != nil
//@   at UpdateObjectSetOrPhaseStatusFromError ghost errReported() := true
//@   loop @reconciler.Reconcile invariant [C14] !subErr() && !errReported()
//@   ensures [C14] subErr() ==> err != nil || errReported()
// a live ObjectSet - paused or not - is probed and reported on in every pass: a pass that got past the finalizer and
// ends without error has sent the status update (or handed an error to the status reporting)
// the status is written under the resourceVersion the pass read its decisions from: the version of the object is never
// set by hand (a stale pass must fail with a conflict instead of overwriting a newer status, e.g. withdrawing Succeeded)
//@   never SetResourceVersion [C06]
//@   after EnsureCachedFinalizer#1 ghost osLive() := result == nil
//@   after updateStatus ghost osStatusSent() := true
//@   loop @reconciler.Reconcile invariant [C09] osLive() == loopentry(osLive()) && osStatusSent() == loopentry(osStatusSent())
//@   ensures [C09] err == nil && osLive() && !old(osLive()) && !old(osStatusSent()) ==> osStatusSent() || errReported()
//@   sink SubResourceWriter.Update requires [C04] true

//@ props C07
// A new ObjectSet gets a revision number strictly greater than that of every ObjectSet its spec.previous names: each of
// them is read in this pass (readRev(k) is what the k-th reported, never 0 - an unreported revision makes the pass wait) and the number set is above all of them.
//@ func package-operator.run/internal/controllers/objectsets.(*revisionReconciler).Reconcile
//@   after GetRevision#2 ghost readRev(idx) := result
//@   loop @Client.Get invariant [C07] 0 <= idx && idx <= len(prevListOf(objectSet)) && prevListOf(objectSet) == old(prevListOf(objectSet))
//@   loop @Client.Get invariant [C07] forall k int :: 0 <= k && k < idx ==> readRev(k) != 0 && readRev(k) <= loopint
//@   at loopexit@Client.Get assert [C07] forall k int :: 0 <= k && k < len(prevListOf(objectSet)) ==> readRev(k) != 0 && readRev(k) <= loopint
//@   at SetRevision#2 assert [C07] forall k int :: 0 <= k && k < len(prevListOf(objectSet)) ==> readRev(k) < arg0
//@   sink SubResourceWriter.Update requires [C07] true

//@ props C04,C05,C15
// A delegated phase counts as torn down only when its phase object was confirmed absent (the read or the delete
// answered NotFound in this call) or is not controlled by the ObjectSet (orphaned): deleting it and waiting until it is
// gone - a phase object that is merely terminating is not done.
//@ func package-operator.run/internal/controllers/objectsets.(*objectSetRemotePhaseReconciler).Teardown
//@   after IsControlledBy#1 ghost phaseCtrlByOS() := result
//@   sink Client.Update#1 requires [C04,C15] true
// (C05: the phase object is deleted only while this very ObjectSet controls it - a phase object of the same name that
//  belongs to somebody else is left alone)
//@   sink Client.Delete#1 requires [C04,C05,C15] phaseCtrlByOS()
//@   ensures [C04,C15] cleanupDone && err == nil ==> lastGet() == 4 || lastGet() == 3 || !phaseCtrlByOS() || lastDeleteGone()

//@ props C04
// "confirmed absent" means confirmed by the API server: the reader the delegated-phase teardown asks whether the phase
// object is gone is the uncached one handed to the controller, not the informer cache.
//@ func package-operator.run/internal/controllers/objectsets.newGenericObjectSetController
//@   at newObjectSetRemotePhaseReconciler assert [C04] arg1 == uncachedClient
//@ func package-operator.run/internal/controllers/objectsets.newObjectSetRemotePhaseReconciler
//@   ensures [C04] result.uncachedClient == uncachedClient && result.client == client
