//go:build verif

// Contracts for package objectsets (comment-only; read by /verif's govc, never compiled into the product).
package objectsets

//@ props C03,C04
//@ func package-operator.run/internal/controllers/objectsets.(*objectSetPhasesReconciler).reconcileLocalPhase
//@   requires [C03] !failedSoFar()
//@   ghost failedSoFar() := old(failedSoFar()) || result2 != nil || !(len(result1.PhaseName) == 0 && len(result1.FailedProbes) == 0)
//@   ensures [C03] failedSoFar() == (old(failedSoFar()) || result2 != nil || !(len(result1.PhaseName) == 0 && len(result1.FailedProbes) == 0))
//@   ensures tdPending() == old(tdPending())

//@ func package-operator.run/internal/controllers/objectsets.(*objectSetPhasesReconciler).reconcilePhase
//@   requires [C03] !failedSoFar()
//@   ghost failedSoFar() := old(failedSoFar()) || result2 != nil || !(len(result1.PhaseName) == 0 && len(result1.FailedProbes) == 0)
//@   ensures [C03] failedSoFar() == (old(failedSoFar()) || result2 != nil || !(len(result1.PhaseName) == 0 && len(result1.FailedProbes) == 0))
//@   ensures tdPending() == old(tdPending())

//@ func package-operator.run/internal/controllers/objectsets.(*objectSetPhasesReconciler).reconcile
//@   requires [C03] !failedSoFar()
//@   ghost failedSoFar() := old(failedSoFar()) || result2 != nil || !(len(result1.PhaseName) == 0 && len(result1.FailedProbes) == 0)
//@   ensures failedSoFar() == (old(failedSoFar()) || result2 != nil || !(len(result1.PhaseName) == 0 && len(result1.FailedProbes) == 0))
//@   loop 1 invariant [C03] !failedSoFar()

//@ func package-operator.run/internal/controllers/objectsets.reverse
//@   assigns mem
//@   ensures len(s) == old(len(s))
//@   ensures forall k int :: 0 <= k && k < len(s) ==> s[k] == old(s[len(s) - 1 - k])
//@   ensures forall k int :: 0 <= k && k < len(s) ==> s[k].Name == old(s[len(s) - 1 - k].Name)
//@   loop 1 invariant 0 <= i && j == len(s) - 1 - i && i <= j + 1
//@   loop 1 invariant forall k int :: (0 <= k && k < i) || (j < k && k < len(s)) ==> s[k] == old(s[len(s) - 1 - k])
//@   loop 1 invariant forall k int :: i <= k && k <= j ==> s[k] == old(s[k])

//@ func package-operator.run/internal/controllers/objectsets.(*objectSetPhasesReconciler).teardownPhase
//@   requires [C04] !tdPending()
//@   ghost tdPending() := old(tdPending()) || err != nil || !cleanupDone
//@   ensures [C04] tdPending() == (old(tdPending()) || err != nil || !cleanupDone)
//@   ensures gomem_unchanged()

//@ func package-operator.run/internal/controllers/objectsets.(*objectSetPhasesReconciler).Teardown
//@   requires [C04] !tdPending()
//@   loop 1 invariant [C04] !tdPending()
//@   loop 1 invariant 0 <= idx
//@   loop 1 invariant gomem_unchanged_in_loop()
//@   at teardownPhase#1 assert [C04] idx < old(len(phasesOf(objectSet)))
//@   at teardownPhase#1 assert [C04] arg2.Name == old(slice_of("package-operator.run/apis/core/v1alpha1.ObjectSetTemplatePhase", phasesOf(objectSet))[len(phasesOf(objectSet)) - 1 - idx].Name)
//@   ensures [C04] cleanupDone && err == nil ==> old(finalizers(clientObj(objectSet))["orphan"]) || !tdPending()

//@ props C04,C14
//@ func package-operator.run/internal/controllers/objectsets.(*GenericObjectSetController).handleDeletionAndArchival
//@   requires [C04] !tdPending()
//@   at FreeCacheAndRemoveFinalizer#1 assert [C04] !old(finalizers(clientObj(objectSet))["package-operator.run/cached"]) || !tdPending()

//@ props C03,C15
//@ func package-operator.run/internal/controllers/objectsets.(*objectSetRemotePhaseReconciler).Reconcile
//@   sink Client.Create#1 requires [C15] getResult(clientObj(currentObjectSetPhase)) == 4 || lastGet() == 4
//@   sink Client.Patch#1 requires [C09,C15] true
//@   at return#7 assert [C03,C15] availableCond != nil && availableCond.ObservedGeneration == genOf(objstate(clientObj(currentObjectSetPhase)))

//@ props C03,C06
//@ func package-operator.run/internal/controllers/objectsets.(*objectSetPhasesReconciler).Reconcile
//@   requires [C03] !failedSoFar()
//@   at SetStatusCondition#3 assert [C06] !failedSoFar()
//@   at SetStatusCondition#4 assert [C06] !failedSoFar() && !inTransition

//@ func package-operator.run/internal/controllers/objectsets.isObjectSetInTransition
//@   readonly
//@   loop 1 invariant gomem_unchanged()
//@   loop 2 invariant gomem_unchanged()
//@   loop 3 invariant gomem_unchanged()
//@   loop 4 invariant gomem_unchanged()
