//go:build verif

// Contracts for package controllers (comment-only; read by /verif's govc, never compiled into the product).
// Spec functions (rev, permitted, byPrev, ...) are declared in /verif/specs/controllers.spec.
package controllers

//@ props C01,C02
//@ func package-operator.run/internal/controllers.getObjectRevision
//@   readonly
//@   ensures (result1 != nil) == revMalformed(obj)
//@   ensures result1 == nil ==> result0 == rev(obj)
//@   ensures result1 != nil ==> !adoptionRefused(result1)

//@ func package-operator.run/internal/controllers.setObjectRevision
//@   assigns ann(obj), annHas(obj), objstate(obj)
//@   ensures rev(obj) == revision && !revMalformed(obj)

//@ func package-operator.run/internal/controllers.(*defaultAdoptionChecker).isControlledByPreviousRevision
//@   readonly
//@   ensures result ==> byPrev(obj, previous)
//@   ensures !result ==> !byPrev(obj, previous)
//@   loop 1 invariant 0 <= idx && idx <= len(previous)
//@   loop 1 invariant forall i int :: 0 <= i && i < idx ==> !prevCtrl(obj, previous[i])
//@   loop 1 invariant oldmem_unchanged()
//@   loop 2 invariant oldmem_unchanged()
//@   loop 2 invariant 0 <= idx && idx <= len(remotePhases)
//@   loop 2 invariant !isCtrl(obj, oid(clientObj(prev)))
//@   loop 2 invariant forall i int :: 0 <= i && i < idx1 ==> !prevCtrl(obj, previous[i])
//@   loop 2 invariant forall m int :: 0 <= m && m < idx ==> !isCtrl(obj, mkOid("package-operator.run", remoteKind(prev), ns(clientObj(prev)), remotePhases[m].Name, remotePhases[m].UID))

//@ func package-operator.run/internal/controllers.(*defaultAdoptionChecker).Check
//@   like package-operator.run/internal/controllers.adoptionChecker.Check
