//go:build verif

// Contracts for package controllers (comment-only; read by /verif's govc, never compiled into the product).
// Spec functions (rev, permitted, byPrev, ...) are declared in /verif/specs/controllers.spec.
package controllers

//@ props C01,C02,C15
//@ func package-operator.run/internal/controllers.getObjectRevision
//@   readonly
//@   ensures (result1 != nil) == revMalformed(obj)
//@   ensures result1 == nil ==> result0 == rev(obj)
//@   ensures result1 != nil ==> !adoptionRefused(result1)

//@ func package-operator.run/internal/controllers.setObjectRevision
//@   assigns ann(obj), annHas(obj), objstate(obj)
//@   ensures rev(obj) == revision && !revMalformed(obj)

//@ func package-operator.run/internal/controllers.(*defaultAdoptionChecker).isControlledByPreviousRevision
//@   readonly
//@   ensures result ==> byPrev(obj, previous)
// the direct half of the converse: an object controlled by any declared previous revision itself is recognised,
// wherever that revision stands in the list (a permitted adoption is carried out)
//@   ensures [C01,C15] !result ==> (forall k int :: 0 <= k && k < len(previous) ==> !isCtrl(obj, oid(clientObj(previous[k]))))
//@   loop @GetRemotePhases invariant oldmem_unchanged()
//@   loop @GetRemotePhases invariant [C01,C15] 0 <= idx && (forall k int :: 0 <= k && k < idx ==> !isCtrl(obj, oid(clientObj(previous[k]))))
//@   loop @IsController invariant oldmem_unchanged()
// (the converse, !result ==> !byPrev, needs the frame of the freshly built owner object across the nested loops;
//  the solvers do not discharge it reliably, so it is not claimed: see DESIGN.md §12)

//@ func package-operator.run/internal/controllers.(*defaultAdoptionChecker).Check
//@   like package-operator.run/internal/controllers.adoptionChecker.Check

//@ props C01,C02,C03,C09,C11
//@ func package-operator.run/internal/controllers.(*PhaseReconciler).reconcileObject
//@   requires [C02] isCtrl(desiredObj, oid(clientObj(owner))) && (forall id int :: isCtrl(desiredObj, id) ==> id == oid(clientObj(owner)))
//@   requires [C03] !failedSoFar()
//@   requires [C09] !specPaused(owner)
//@   requires [C11] pfCheckedArr() != 0 && ea_arr(desiredObj) == pfCheckedArr()
//@   sink Writer.Patch#1 requires [C01,C02] getResult(currentObj) == 4
//@   sink Writer.Patch#1 requires [C02] isCtrl(arg1, oid(clientObj(owner))) && (forall id int :: isCtrl(arg1, id) ==> id == oid(clientObj(owner)))
//@   sink Writer.Patch#1 requires [C03] !failedSoFar()
//@   sink Writer.Patch#1 requires [C09] !specPaused(owner)
//@   sink Writer.Patch#1 requires [C11] pfCheckedArr() != 0 && ea_arr(arg1) == pfCheckedArr()
//@   sink patcher.Patch#1 requires [C01] (getResult(currentObj) == 1 || getResult(currentObj) == 2) && isCtrl(updatedObj, oid(clientObj(owner)))
//@   sink patcher.Patch#1 requires [C01] isCtrl(currentObj, oid(clientObj(owner))) || permitted(currentObj, ownerRev(owner), previous, collisionProtection)
//@   sink patcher.Patch#1 requires [C02] rev(updatedObj) >= rev(currentObj) && !(rev(currentObj) > ownerRev(owner) && !isCtrl(currentObj, oid(clientObj(owner))))
//@   sink patcher.Patch#1 requires [C02] needsAdoption ==> rev(updatedObj) == ownerRev(owner) && (forall id int :: isCtrl(updatedObj, id) ==> id == oid(clientObj(owner)))
//@   sink patcher.Patch#1 requires [C03] !failedSoFar()
//@   sink patcher.Patch#1 requires [C09] !specPaused(owner)
//@   sink patcher.Patch#1 requires [C11] pfCheckedArr() != 0 && ea_arr(desiredObj) == pfCheckedArr()
//@   ensures [C01] err != nil && adoptionRefused(err) ==> W() == old(W())
//@   ensures failedSoFar() == old(failedSoFar()) && pfCheckedArr() == old(pfCheckedArr())
//@   ensures [C03] probedOK() == old(probedOK())
//@   ensures [C03] gomem_unchanged()

//@ props C01,C02,C03,C04,C05,C08,C09,C11
//@ func package-operator.run/internal/controllers.(*PhaseReconciler).desiredObject
//@   readonly
//@   fresh desiredObj, objid(desiredObj)
//@   ensures desiredObj != nil && fresh(objid(desiredObj)) && desiredObj.Object == objid(desiredObj) && desiredObj.Object != nil
//@   ensures rev(desiredObj) == ownerRev(owner) && !revMalformed(desiredObj)
//@   ensures phaseObject.Object.Object != nil ==> ns(desiredObj) == (if len(ns(phaseObject.Object)) == 0 then ns(clientObj(owner)) else ns(phaseObject.Object))
//@   ensures phaseObject.Object.Object != nil ==> name(desiredObj) == name(phaseObject.Object) && grp(desiredObj) == grp(phaseObject.Object) && kind(desiredObj) == kind(phaseObject.Object)
//@   ensures phaseObject.Object.Object != nil ==> isCtrl(desiredObj) == isCtrl(phaseObject.Object) && isOwner(desiredObj) == isOwner(phaseObject.Object) && ownerRefsId(desiredObj) == ownerRefsId(phaseObject.Object)
//@   ensures lblHas(desiredObj)["package-operator.run/cache"] && lbl(desiredObj)["package-operator.run/cache"] == "True"

//@ func package-operator.run/internal/controllers.(*defaultPatcher).Patch
//@   like package-operator.run/internal/controllers.patcher.Patch
//@   sink Writer.Patch#1 requires [C02] ownerRefsId(patch) == ownerRefsId(updatedObj) && objid(arg1) == objid(updatedObj)
//@   sink fixFieldManagers:Writer.Patch#1 requires [C01] objid(arg1) == objid(currentObj)

//@ func package-operator.run/internal/controllers.(*PhaseReconciler).reconcilePhaseObject
//@   requires [C03] !failedSoFar()
//@   ensures [C03] probedOK() == old(probedOK())
//@   ensures [C03] gomem_unchanged(*asptr("[]k8s.io/apimachinery/pkg/apis/meta/v1.Condition", condsPtr(owner)))
//@   requires [C11] pfCheckedArr() != 0 && ea_arr(desiredObj) == pfCheckedArr()
//@   ensures [C09] old(specPaused(owner)) ==> W() == old(W())
//@   ensures [C01] err != nil && adoptionRefused(err) ==> W() == old(W())
//@   ensures failedSoFar() == old(failedSoFar()) && pfCheckedArr() == old(pfCheckedArr())

//@ func package-operator.run/internal/controllers.mapConditions
//@   assigns mem, condSt
//@   ensures [C03] gomem_unchanged(*asptr("[]k8s.io/apimachinery/pkg/apis/meta/v1.Condition", condsPtr(owner))) && probedOK() == old(probedOK())
//@   loop 1 invariant [C03] gomem_unchanged() && probedOK() == old(probedOK())
//@   loop 2 invariant [C03] gomem_unchanged(*asptr("[]k8s.io/apimachinery/pkg/apis/meta/v1.Condition", condsPtr(owner))) && probedOK() == old(probedOK())
//@   ensures err != nil ==> !adoptionRefused(err)

//@ func package-operator.run/internal/controllers.(*recordingProbe).Probe
//@   assigns p.failures, sparecap(p.failures), probedOK(obj)
//@   ghost probedOK(obj) := probeOK(p.probe, objstate(obj))
//@   ensures [C03] probedOK(obj) == probeOK(p.probe, objstate(obj))
//@   ensures [C03] probeOK(p.probe, objstate(obj)) ==> len(p.failures) == old(len(p.failures))
//@   ensures [C03] !probeOK(p.probe, objstate(obj)) ==> len(p.failures) == old(len(p.failures)) + 1
//@ func package-operator.run/internal/controllers.(*recordingProbe).RecordMissingObject
//@   assigns p.failures, sparecap(p.failures)
//@   ensures [C03] len(p.failures) == old(len(p.failures)) + 1
//@ func package-operator.run/internal/controllers.(*recordingProbe).Result
//@   readonly
//@   ensures [C03] (len(result.PhaseName) == 0 && len(result.FailedProbes) == 0) <==> len(p.failures) == 0

//@ func package-operator.run/internal/controllers.(*PhaseReconciler).ReconcilePhase
//@   requires [C03] !failedSoFar()
//@   requires [C11] len(phase.Class) == 0
//@   ghost failedSoFar() := old(failedSoFar()) || err != nil || !(len(res.PhaseName) == 0 && len(res.FailedProbes) == 0)
//@   ensures [C03] failedSoFar() == (old(failedSoFar()) || err != nil || !(len(res.PhaseName) == 0 && len(res.FailedProbes) == 0))
//@   loop @desiredObject invariant 0 <= idx && failedSoFar() == old(failedSoFar())
//@   loop @reconcilePhaseObject invariant !failedSoFar() && pfCheckedArr() != 0 && pfCheckedArr() == sarr(desiredObjects)
//@   loop @reconcilePhaseObject invariant 0 <= idx && idx <= len(phase.Objects)
//@   loop @reconcilePhaseObject invariant [C03] rec.probe == probe
//@   loop @reconcilePhaseObject invariant [C03] len(rec.failures) == 0 ==> len(actualObjects) == idx
//@   loop @reconcilePhaseObject invariant [C03] cap(actualObjects) == 0 || allocated(sarr(actualObjects))
//@   loop @reconcilePhaseObject invariant [C03] forall j int :: 0 <= j && j < len(actualObjects) ==> hastype("*k8s.io/apimachinery/pkg/apis/meta/v1/unstructured.Unstructured", actualObjects[j])
//@   loop @reconcilePhaseObject invariant [C03] len(rec.failures) == 0 ==> (forall j int :: 0 <= j && j < len(actualObjects) ==> probedOK(actualObjects[j]))
//@   ensures [C03] err == nil && len(res.PhaseName) == 0 && len(res.FailedProbes) == 0 ==> len(actualObjects) == len(phase.Objects)
//@   ensures [C03] err == nil && len(res.PhaseName) == 0 && len(res.FailedProbes) == 0 ==> (forall j int :: 0 <= j && j < len(actualObjects) ==> probedOK(actualObjects[j]))

//@ func package-operator.run/internal/controllers.(*PhaseReconciler).teardownPhaseObject
//@   requires [C04] !tdPending()
//@   sink Writer.Delete requires [C01,C05,C08] lastGet() == 2 && isCtrl(arg1, oid(clientObj(owner)))
// (C08: the delete is pinned to the version in which the revision was seen to control the object, so an object adopted
//  in place by the incoming revision in the meantime is not deleted during the handover)
//@   sink Writer.Delete requires [C01,C05,C08] *asstruct("sigs.k8s.io/controller-runtime/pkg/client.Preconditions", varargs[0]).UID == uid(arg1) && *asstruct("sigs.k8s.io/controller-runtime/pkg/client.Preconditions", varargs[0]).ResourceVersion == rv(arg1)
//@   sink Writer.Delete requires [C04] !tdPending()
//@   sink Writer.Patch#1 requires [C05] lastGet() == 2 && !isCtrl(arg1, oid(clientObj(owner))) && isOwner(arg1, oid(clientObj(owner)))
// the object state a teardown write is based on is read after the (possibly long blocking) watch set-up, not before it:
// the owner list written back is the one read right before the write, so a handover that happens meanwhile is not undone
//@   at dynamicCache.Watch assert [C02,C05] lastGet() == old(lastGet()) && lastGetObj() == old(lastGetObj())
//@   ensures [C04] err == nil && cleanupDone ==> pfViolations() > 0 || lastGet() == 4 || (lastGet() == 2 && !lastGetCtrl()[oid(clientObj(owner))]) || lastDeleteGone()
//@   ensures [C05] W() <= old(W()) + 1
//@   ensures [C05] pfViolations() > 0 ==> W() == old(W())
//@   ensures tdPending() == old(tdPending())
//@   ensures gomem_unchanged()
//@   ghost tdObjNotDone() := old(tdObjNotDone()) + (if err == nil && !cleanupDone then 1 else 0)
//@   ensures [C04] tdObjNotDone() == old(tdObjNotDone()) + (if err == nil && !cleanupDone then 1 else 0)

// a phase is reported torn down only if every one of its objects was (conjunction over all objects, not the last one)
//@ func package-operator.run/internal/controllers.(*PhaseReconciler).TeardownPhase
//@   ensures [C04] err == nil && cleanupDone ==> tdObjNotDone() == old(tdObjNotDone())
//@   loop 1 invariant [C04] 0 <= idx && idx <= len(phase.Objects) && tdObjNotDone() >= old(tdObjNotDone())
// the two usual ways of keeping the conjunction: a count of finished objects, or a flag cleared by an unfinished one
//@   loop 1 invariant? [C04] loopint + (tdObjNotDone() - old(tdObjNotDone())) == idx
//@   loop 1 invariant? [C04] loopbool == (tdObjNotDone() == old(tdObjNotDone()))
//@   requires [C04] !tdPending()
//@   ghost tdPending() := old(tdPending()) || err != nil || !cleanupDone
//@   ensures [C04] tdPending() == (old(tdPending()) || err != nil || !cleanupDone)
//@   loop 1 invariant !tdPending()
//@   loop 1 invariant gomem_unchanged()
//@   ensures gomem_unchanged()

//@ props C04,C12,C18
// the owner's watches are released before its finalizer is given up (a failed or lost finalizer patch must not leave
// the owner registered in the dynamic cache)
//@ func package-operator.run/internal/controllers.FreeCacheAndRemoveFinalizer
//@   sink RemoveFinalizer:Client.Patch#1 requires [C04] objid(arg1) == objid(obj)
//@   sink RemoveFinalizer:Client.Patch#1 requires [C12,C18] freed(obj)
//@   ensures tdPending() == old(tdPending())
//@   ensures archivedNow() == old(archivedNow())

//@ props C03,C06,C15
//@ func package-operator.run/internal/controllers.IsExternalResourceNotFound
//@   readonly
//@   ensures result ==> err != nil

//@ props C15
// the cached finalizer is on the object, or a patch adding it was accepted, whenever EnsureCachedFinalizer returns nil
//@ func package-operator.run/internal/controllers.EnsureFinalizer
//@   sink Client.Patch#1 requires [C15] finalizers(arg1)[finalizer]
//@   ensures [C15] result == nil ==> old(finalizers(obj)[finalizer]) || W() == old(W()) + 1
//@ func package-operator.run/internal/controllers.EnsureCachedFinalizer
//@   ghost finEnsured(obj) := result == nil
//@   ensures [C15] finEnsured(obj) == (result == nil)

//@ props C01
// every declared previous revision is looked up into an object of its own: the result has one distinct entry per
// declared revision (adoption from "one of the declared previous revisions" is decided over this list)
//@ func package-operator.run/internal/controllers.(*PreviousRevisionLookup).Lookup
//@   ensures [C01] result1 == nil ==> (forall a int, b int :: 0 <= a && a < b && b < len(result0) ==> ival(result0[a]) != ival(result0[b]))
//@   ensures [C01] result1 == nil ==> (forall k int :: 0 <= k && k < len(result0) ==> fresh(result0[k]) && result0[k] != nil)
//@   loop 1 invariant 0 <= idx && idx <= len(previousSets)
//@   loop 1 invariant forall k int :: 0 <= k && k < idx ==> fresh(previousSets[k]) && allocated(previousSets[k]) && previousSets[k] != nil
//@   loop 1 invariant forall a int, b int :: 0 <= a && a < b && b < idx ==> ival(previousSets[a]) != ival(previousSets[b])
//@   loop 1 invariant fresh(sarr(previousSets)) && allocated(sarr(previousSets))
