//go:build verif

// Contracts for package objecttemplate (comment-only; read by /verif's govc, never compiled into the product).
package objecttemplate

//@ props C11,C18
// a source that is looked up reports "not found without error" only for a missing optional source; every such
// case is counted
//@ func package-operator.run/internal/controllers/objecttemplate.(*templateReconciler).lookupUncached
//@   sink Reader.Get requires [C18] true
//@   ensures [C18] err == nil && !found ==> src.Optional
//@   ensures missingOpt() == old(missingOpt()) && sourcesOK() == old(sourcesOK())
//@   ensures gomem_unchanged()

//@ func package-operator.run/internal/controllers/objecttemplate.(*templateReconciler).getSourceObject
// the preflight checks see the source with the namespace its reference declares (possibly none)
//@   at preflightChecker.Check#1 assert [C11,C18] ns(arg2) == src.Namespace
//@   sink AddDynamicCacheLabel:Writer.Patch#1 requires [C18] true
//@   ghost missingOpt() := old(missingOpt()) + (if err == nil && !found then 1 else 0)
//@   ensures [C18] missingOpt() == old(missingOpt()) + (if err == nil && !found then 1 else 0)
//@   ensures [C18] err == nil && !found ==> src.Optional
//@   ensures sourcesOK() == old(sourcesOK())
//@   ensures gomem_unchanged(maps)

//@ func package-operator.run/internal/controllers/objecttemplate.copySourceItems
//@   ensures missingOpt() == old(missingOpt()) && sourcesOK() == old(sourcesOK())
//@   ensures gomem_unchanged(maps)
//@   loop 1 invariant gomem_unchanged(maps) && missingOpt() == old(missingOpt()) && sourcesOK() == old(sourcesOK())

// missing optional sources are retried: the pass asks for a retry exactly when some optional source was missing
//@ func package-operator.run/internal/controllers/objecttemplate.(*templateReconciler).getValuesFromSources
//@   ghost sourcesOK() := err == nil
//@   ensures [C18] sourcesOK() == (err == nil)
//@   ensures [C18] err == nil ==> retryLater == (missingOpt() > old(missingOpt()))
//@   ensures [C18] missingOpt() >= old(missingOpt())
//@   ensures gomem_unchanged(maps)
//@   loop 1 invariant [C18] 0 <= idx && missingOpt() >= old(missingOpt()) && retryLater == (missingOpt() > old(missingOpt()))
//@   loop 1 invariant gomem_unchanged(maps)

// the rendered object is marked as this pass's output only when rendering and the preflight checks succeeded; for a
// namespaced ObjectTemplate it is placed in the template's namespace
//@ func package-operator.run/internal/controllers/objecttemplate.(*templateReconciler).templateObject
// the preflight checks see the target as it was rendered: its namespace is defaulted to the template's only afterwards
// (a kind without namespace is looked up for its scope only while the namespace is still empty)
//@   at preflightChecker.Check#1 assert [C11,C18] ns(arg2) == lastUnmarshalNs()
//@   ghost tplOK(object) := result == nil
//@   ghost renderedLbl() := lbl(object)
//@   ghost renderedLblHas() := lblHas(object)
//@   ghost renderedAnn() := ann(object)
//@   ghost renderedAnnHas() := annHas(object)
//@   ensures [C18] renderedLbl() == lbl(object) && renderedLblHas() == lblHas(object) && renderedAnn() == ann(object) && renderedAnnHas() == annHas(object)
//@   ensures [C18] tplOK(object) == (result == nil)
//@   ensures [C18] result == nil && len(ns(clientObj(objectTemplate))) > 0 ==> ns(object) == ns(clientObj(objectTemplate))
//@   ensures missingOpt() == old(missingOpt()) && sourcesOK() == old(sourcesOK())

//@ func package-operator.run/internal/controllers/objecttemplate.(*templateReconciler).handleCreation
//@   requires [C18] sourcesOK() && tplOK(object)
//@   requires [C18] len(ns(owner)) > 0 ==> ns(object) == ns(owner)
//@   sink Writer.Create#1 requires [C18] sourcesOK() && tplOK(arg1) && (len(ns(owner)) > 0 ==> ns(arg1) == ns(owner))
//@   ensures missingOpt() == old(missingOpt()) && sourcesOK() == old(sourcesOK())

// error classes are reported through the Invalid condition; a clean pass removes it
//@ func package-operator.run/internal/controllers/objecttemplate.setObjectTemplateConditionBasedOnError
//@   ensures [C18] err != nil && (chainHas(err, typetag("*package-operator.run/internal/controllers/objecttemplate.SourceError")) || chainHas(err, typetag("*package-operator.run/internal/controllers/objecttemplate.TemplateError"))) ==> result == nil && condSt(condsPtr(objectTemplate), "package-operator.run/Invalid") == 1
//@   ensures [C18] err == nil ==> result == nil && condSt(condsPtr(objectTemplate), "package-operator.run/Invalid") == 0
//@   ensures missingOpt() == old(missingOpt()) && sourcesOK() == old(sourcesOK())

//@ func package-operator.run/internal/controllers/objecttemplate.updateStatusConditionsFromOwnedObject
//@   assigns mem, condSt

// the target is written only after every source was resolved and the template rendered and passed preflight, inside
// the template's namespace; a missing optional source makes the pass ask for the optional-source retry
//@ func package-operator.run/internal/controllers/objecttemplate.(*templateReconciler).Reconcile
//@   sink Writer.Update#1 requires [C18] sourcesOK() && tplOK(arg1) && (len(ns(clientObj(objectTemplate))) > 0 ==> ns(arg1) == ns(clientObj(objectTemplate)))
// on update, labels and annotations produced by the template win over what the live object carries
//@   sink Writer.Update#1 requires [C18] forall k string :: renderedLblHas()[k] ==> lblHas(arg1)[k] && lbl(arg1)[k] == renderedLbl()[k]
//@   sink Writer.Update#1 requires [C18] forall k string :: renderedAnnHas()[k] ==> annHas(arg1)[k] && ann(arg1)[k] == renderedAnn()[k]
//@   ensures [C18] sourcesOK() && missingOpt() > old(missingOpt()) ==> res.RequeueAfter == old(r.optionalResourceRetryInterval)

//@ props C18
// What a pass found (Invalid set or cleared, controllerOf) is reported: every pass over a live ObjectTemplate that
// ends without error has sent the status update - also when the template reconciler only asks to come back later
// (missing required or optional source).
//@ func package-operator.run/internal/controllers/objecttemplate.(*GenericObjectTemplateController).Reconcile
//@   after EnsureCachedFinalizer#1 ghost tplLive() := result == nil
//@   at SubResourceWriter.Update ghost statusSent() := true
//@   sink SubResourceWriter.Update requires [C18] tplLive()
//@   loop 1 invariant tplLive() == loopentry(tplLive()) && statusSent() == old(statusSent())
//@   ensures [C18] result1 == nil && tplLive() && !old(tplLive()) && !old(statusSent()) ==> statusSent()

// The environment a template is rendered with is the one read in this pass: getEnvironment never answers without
// having asked the environment sink in this very call (nothing is remembered between passes).
//@ func package-operator.run/internal/controllers/objecttemplate.(*templateReconciler).getEnvironment
//@   at GetEnvironment ghost envFetched() := true
//@   ensures [C18] result1 == nil && !old(envFetched()) ==> envFetched()
//@   ensures missingOpt() == old(missingOpt()) && sourcesOK() == old(sourcesOK())
