//go:build verif

// Contracts for package objectdeployments (comment-only; read by /verif's govc, never compiled into the product).
package objectdeployments

//@ props C07
//@ func package-operator.run/internal/controllers/objectdeployments.latestRevisionNumber
//@   readonly
//@   requires forall i int, j int :: 0 <= i && i <= j && j < len(prevObjectSets) ==> ownerRev(prevObjectSets[i]) <= ownerRev(prevObjectSets[j])
//@   ensures forall i int :: 0 <= i && i < len(prevObjectSets) ==> ownerRev(prevObjectSets[i]) <= result
//@   ensures len(prevObjectSets) == 0 ==> result == 0

// the ObjectSet built for a new revision carries the deployment's template spec, names every existing ObjectSet as
// previous revision, is called <deployment>-<template hash> in the deployment's namespace and is controlled by it
//@ func package-operator.run/internal/controllers/objectdeployments.(*newRevisionReconciler).newObjectSetFromDeployment
//@   ensures [C07] result1 == nil ==> tplVal(clientObj(result0)) == old(depTplSpec(clientObj(objectDeployment)))
//@   ensures [C07] result1 == nil ==> prevRevs(clientObj(result0)) == prevObjectSets
//@   ensures [C07] result1 == nil ==> ns(clientObj(result0)) == old(ns(clientObj(objectDeployment)))
//@   ensures depTplSpec() == old(depTplSpec()) && depPhases() == old(depPhases()) && (forall i int :: 0 <= i && i < len(prevObjectSets) ==> ownerRev(prevObjectSets[i]) == old(ownerRev(prevObjectSets[i])))
//@   ensures gomem_unchanged(maps)
//@   ensures result1 == nil ==> fresh(result0)

//@ func package-operator.run/internal/controllers/objectdeployments.(*newRevisionReconciler).Reconcile
//@   requires [C07] true
//@   sink Client.Create#1 requires [C07] depPhases(clientObj(objectDeployment)) != 0
//@   sink Client.Create#1 requires [C07] tplVal(arg1) == depTplSpec(clientObj(objectDeployment)) && prevRevs(arg1) == prevObjectSets
//@   requires forall i int, j int :: 0 <= i && i <= j && j < len(prevObjectSets) ==> ownerRev(prevObjectSets[i]) <= ownerRev(prevObjectSets[j])
//@   sink Client.Create#1 requires [C07] currentObject == nil
// the collision counter is bumped only for a clash with an ObjectSet that was actually read back
//@   at SetStatusCollisionCount#1 assert [C07] getResult(clientObj(conflictingObjectSet)) == 2
//@   at return#7 assert [C07] lastDeepEq() && !archivedOS(conflictingObjectSet) && (forall i int :: 0 <= i && i < len(prevObjectSets) ==> ownerRev(prevObjectSets[i]) <= ownerRev(conflictingObjectSet))

//@ props C08
//@ func package-operator.run/internal/controllers/objectdeployments.(*defaultObjectSetGetter).getActivelyReconciledObjects
//@   ensures old(!archivedOS(os.objectSet) && ctrlOfSlice(os.objectSet) == nil) ==> result == nil

//@ func package-operator.run/internal/controllers/objectdeployments.(*archiveReconciler).ensurePaused
//@   ensures result0 ==> statusPaused(objectset)
//@   ensures [C08] gomem_unchanged(alloc(objectset, "Str"))
//@   sink Client.Update#1 requires [C08] !statusPaused(objectset)

// the candidates are collected in a list of their own: the revision lists handed in (which history pruning walks
// afterwards, oldest first) are not written
//@ func package-operator.run/internal/controllers/objectdeployments.(*archiveReconciler).archiveAllLaterRevisions
//@   ensures [C08] gomem_unchanged(class("Str"))
//@   loop 1 invariant [C08] 0 <= idx && gomem_unchanged(class("Str")) && (cap(res) == 0 || (fresh(sarr(res)) && allocated(sarr(res))))

//@ func package-operator.run/internal/controllers/objectdeployments.(*archiveReconciler).markObjectSetsForArchival
//@   sink Client.Update#1 requires [C08] statusPaused(objectSet)

//@ func package-operator.run/internal/controllers/objectdeployments.(*archiveReconciler).garbageCollectRevisions
// the k-th deletion of a pass removes the k-th oldest previous revision, and only while k is below the number of
// revisions beyond the history limit (the current revision is not in the list)
//@   sink Client.Delete#1 requires [C08] 0 <= idx && idx < len(previousObjectSets) && ival(arg1) == ival(clientObj(previousObjectSets[idx]))
//@   sink Client.Delete#1 requires [C08] idx < len(previousObjectSets) - revisionLimit
//@   loop 1 invariant 0 <= idx
//@   loop 1 invariant? loopint + idx == loopentry(loopint)

//@ props C07,C09
//@ func package-operator.run/internal/controllers/objectdeployments.(*objectSetReconciler).Reconcile
//@   sink objectSetSubReconciler.Reconcile#1 requires [C09] !depPaused(objectDeployment)
// the ObjectSet taken as "current" is the newest one (or none): an older ObjectSet that happens to carry the
// template's hash - a rollback - is a previous revision like any other, so a fresh ObjectSet is created
//@   loop @IsArchived invariant [C07] currentObjectSet == nil || (len(objectSets) > 0 && currentObjectSet == objectSets[len(objectSets) - 1])
//@   loop @objectSetSubReconciler.Reconcile invariant [C07] idx == 0 ==> (currentObjectSet == nil || (len(objectSets) > 0 && currentObjectSet == objectSets[len(objectSets) - 1]))
// (checked where the first sub-reconciler is called; the variable is not assigned afterwards)
//@   at objectSetSubReconciler.Reconcile assert [C07] idx == 0 ==> (arg1 == nil || (len(objectSets) > 0 && arg1 == objectSets[len(objectSets) - 1]))
// no revision is created (or anything else decided) while some existing ObjectSet has not reported its revision yet
//@   loop @GetRevision invariant [C07] 0 <= idx && (forall i int :: 0 <= i && i < idx ==> ownerRev(objectSets[i]) != 0)
//@   at loopexit@GetRevision assert [C07] forall i int :: 0 <= i && i < len(objectSets) ==> ownerRev(objectSets[i]) != 0
// unpausing releases exactly the revisions the parent had paused; pausing marks only revisions it had not paused
//@   at SetActiveByParent#1 assert [C09] pausedByParent(objectSet) && !depPaused(objectDeployment)
//@   at SetPausedByParent#1 assert [C09] !pausedByParent(objectSet) && depPaused(objectDeployment)
//@   sink Client.Update#1 requires [C09] !archivedOS(objectSet)
//@   loop @objectSetSubReconciler.Reconcile invariant !depPaused(objectDeployment)

//@ props C07
// every ObjectSet the API lists for the deployment is handed on (sorted by revision): none is left out, so the new
// revision names all of them as previous and gets a revision number above all of theirs
//@ func package-operator.run/internal/controllers/objectdeployments.(*GenericObjectDeploymentController).listObjectSetsByRevision
//@   ensures [C07] result1 == nil ==> len(result0) == len(itemsOf(objectSetList)) && sarr(result0) == sarr(itemsOf(objectSetList))
