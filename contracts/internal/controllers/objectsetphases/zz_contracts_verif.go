//go:build verif

// Contracts for package objectsetphases (comment-only; read by /verif's govc, never compiled into the product).
package objectsetphases

//@ props C11
// The phase handed to the phase reconciler by the ObjectSetPhase controllers carries no class: the namespace rule of
// the preflight checks is skipped only for phases that are delegated (class set), never for the phase being executed.
//@ func package-operator.run/internal/controllers/objectsetphases.(*GenericObjectSetPhase).GetPhase
//@   like package-operator.run/internal/controllers/objectsetphases.genericObjectSetPhase.GetPhase
//@ func package-operator.run/internal/controllers/objectsetphases.(*GenericClusterObjectSetPhase).GetPhase
//@   like package-operator.run/internal/controllers/objectsetphases.genericObjectSetPhase.GetPhase

//@ func package-operator.run/internal/controllers/objectsetphases.(*objectSetPhaseReconciler).Reconcile
//@   requires true
