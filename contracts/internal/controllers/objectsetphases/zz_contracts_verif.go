//go:build verif

// Contracts for package objectsetphases (comment-only; read by /verif's govc, never compiled into the product).
package objectsetphases

//@ props C11
// The phase handed to the phase reconciler by the ObjectSetPhase controllers carries no class: the namespace rule of
// the preflight checks is skipped only for phases that are delegated (class set), never for the phase being executed.
//@ func package-operator.run/internal/controllers/objectsetphases.(*GenericObjectSetPhase).GetPhase
//@   like package-operator.run/internal/controllers/objectsetphases.genericObjectSetPhase.GetPhase
//@ func package-operator.run/internal/controllers/objectsetphases.(*GenericClusterObjectSetPhase).GetPhase
//@   like package-operator.run/internal/controllers/objectsetphases.genericObjectSetPhase.GetPhase

//@ props C06,C11,C15
// Rollout gating as for an in-process phase: every pass whose ReconcilePhase went through recomputes
// status.controllerOf from the actual objects before it returns, whatever the probes said (the parent ObjectSet copies
// that list and decides InTransition / archival of the revision from it).
//@ func package-operator.run/internal/controllers/objectsetphases.(*objectSetPhaseReconciler).Reconcile
//@   requires true
//@   after ReconcilePhase#1 ghost phaseWentThrough() := result2 == nil
//@   at SetStatusControllerOf ghost ctrlOfReported() := true
//@   ensures [C06,C15] err == nil && phaseWentThrough() && !old(ctrlOfReported()) ==> ctrlOfReported()

//@ props C15
// a delegated phase is reconciled (objects written) only after its cached finalizer was persisted in this pass, so
// that deleting the phase object always runs the phase's teardown
//@ func package-operator.run/internal/controllers/objectsetphases.(*GenericObjectSetPhaseController).Reconcile
//@   at reconciler.Reconcile#1 assert [C15] finEnsured(clientObj(objectSetPhase))
//@   sink updateStatus:SubResourceWriter.Update requires [C15] true
//@   loop 1 invariant [C15] finEnsured(clientObj(objectSetPhase))
