//go:build verif

// Contracts for package transform (comment-only; read by /verif's govc, never compiled into the product).
package transform

//@ props C19
// The "include" template function bounds its own nesting: includedNames[name] counts the invocations for name that are
// still running, so it has to leave every counter as it found it, and it refuses to start once the counter exceeds the
// limit. (Rendering re-enters this function through text/template; each nested run is an invocation of this same
// function, whose postcondition is what the library spec of ExecuteTemplate relies on — induction on nesting depth.)
//@ func package-operator.run/internal/transform.SprigFuncs$1
//@   ensures [C19] forall n string :: (if (n in *includedNames) then (*includedNames)[n] else 0) == old(if (n in *includedNames) then (*includedNames)[n] else 0)
//@   ensures [C19] old((name in *includedNames) && (*includedNames)[name] > 1000) ==> result1 != nil
