//go:build verif

// Contracts for package probing (comment-only; read by /verif's govc, never compiled into the product).
package probing

//@ props C17
//@ func package-operator.run/pkg/probing.(And).Probe
//@   readonly
//@   ensures success <==> (forall i int :: 0 <= i && i < len(p) ==> probeOK(p[i], objstate(obj)))
//@   ensures success ==> len(messages) == 0
//@   ensures !success ==> len(messages) >= 1
//@   loop 1 invariant 0 <= idx && idx <= len(p)
//@   loop 1 invariant (len(allMsgs) == 0) <==> (forall i int :: 0 <= i && i < idx ==> probeOK(p[i], objstate(obj)))
//@   loop 1 invariant sarr(allMsgs) == 0 || fresh(sarr(allMsgs))
//@   loop 1 invariant oldmem_unchanged()
