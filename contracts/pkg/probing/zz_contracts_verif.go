//go:build verif

// Contracts for package probing (comment-only; read by /verif's govc, never compiled into the product).
// Spec functions (probeOK, celPass, ...) are declared in /verif/specs/probing.spec.
package probing

//@ props C03,C17
//@ func package-operator.run/pkg/probing.(And).Probe
//@   readonly
//@   ensures success <==> (forall i int :: 0 <= i && i < len(p) ==> probeOK(p[i], objstate(obj)))
//@   ensures success ==> len(messages) == 0
//@   ensures !success ==> len(messages) >= 1
// all failing probes are reported: every failing probe contributes its messages (at least one each)
//@   after Prober.Probe ghost failedProbes() := failedProbes() + (if result0 then 0 else 1)
//@   ensures [C17] len(messages) >= failedProbes() - old(failedProbes())
//@   loop 1 invariant 0 <= idx && idx <= len(p)
//@   loop 1 invariant [C17] len(allMsgs) >= failedProbes() - old(failedProbes())
//@   loop 1 invariant (len(allMsgs) == 0) <==> (forall i int :: 0 <= i && i < idx ==> probeOK(p[i], objstate(obj)))
//@   loop 1 invariant sarr(allMsgs) == 0 || fresh(sarr(allMsgs))
//@   loop 1 invariant oldmem_unchanged()

//@ func package-operator.run/pkg/probing.(*GroupKindSelector).Probe
//@   readonly
//@   ensures success <==> ((kp.GroupKind.Group == gvkGroup(objstate(obj)) && kp.GroupKind.Kind == gvkKind(objstate(obj))) ==> probeOK(kp.Prober, objstate(obj)))
//@   ensures success ==> len(messages) == 0
//@   ensures !success ==> len(messages) >= 1

//@ func package-operator.run/pkg/probing.(*LabelSelector).Probe
//@   readonly
//@   ensures success <==> (selMatches(ss.Selector, lblOf(objstate(obj))) ==> probeOK(ss.Prober, objstate(obj)))
//@   ensures success ==> len(messages) == 0
//@   ensures !success ==> len(messages) >= 1

//@ func package-operator.run/pkg/probing.toUnstructured
//@   readonly
//@   ensures result != nil && fresh(result) && ucontent(result.Object) == objstate(obj)

//@ func package-operator.run/pkg/probing.(*ObservedGenerationProbe).Probe
//@   readonly
//@   ensures success <==> (!(nestedIntOk(objstate(obj), "status.observedGeneration") && nestedIntVal(objstate(obj), "status.observedGeneration") != genOf(objstate(obj))) && probeOK(cg.Prober, objstate(obj)))
//@   ensures success ==> len(messages) == 0
//@   ensures !success ==> len(messages) >= 1

//@ func package-operator.run/pkg/probing.(*CELProbe).Probe
//@   readonly
//@   ensures success <==> celPass(p.Program, objstate(obj))
//@   ensures success ==> len(messages) == 0
//@   ensures !success ==> len(messages) >= 1

//@ func package-operator.run/pkg/probing.(*FieldsEqualProbe).Probe
//@   readonly
//@   ensures success ==> len(messages) == 0
//@   ensures !success ==> len(messages) >= 1

//@ func package-operator.run/pkg/probing.(*FieldsEqualProbe).probe
//@   readonly
//@   ensures success <==> (nfcOk(ucontent(obj.Object), strSplit(strTrim(fe.FieldA, "."), ".")) && nfcOk(ucontent(obj.Object), strSplit(strTrim(fe.FieldB, "."), ".")) && deepEq(nfcVal(ucontent(obj.Object), strSplit(strTrim(fe.FieldA, "."), ".")), nfcVal(ucontent(obj.Object), strSplit(strTrim(fe.FieldB, "."), "."))))

//@ func package-operator.run/pkg/probing.(*ConditionProbe).probe
//@   readonly
//@   ensures success ==> nestedFieldOk(ucontent(obj.Object), "status.conditions") && isslice_any(nestedField(ucontent(obj.Object), "status.conditions"))
//@   ensures success ==> (exists k int :: 0 <= k && k < len(anyslice(nestedField(ucontent(obj.Object), "status.conditions"))) && condMatch(anyslice(nestedField(ucontent(obj.Object), "status.conditions"))[k], cp.Type) && anymap(anyslice(nestedField(ucontent(obj.Object), "status.conditions"))[k])["status"] == boxstr(cp.Status) && ("status" in anymap(anyslice(nestedField(ucontent(obj.Object), "status.conditions"))[k])) && !(nestedIntOk(ucontent(anymap(anyslice(nestedField(ucontent(obj.Object), "status.conditions"))[k])), "observedGeneration") && nestedIntVal(ucontent(anymap(anyslice(nestedField(ucontent(obj.Object), "status.conditions"))[k])), "observedGeneration") != genOf(ucontent(obj.Object))) && (forall j int :: 0 <= j && j < k ==> !condMatch(anyslice(nestedField(ucontent(obj.Object), "status.conditions"))[j], cp.Type)))
//@   loop 1 invariant 0 <= idx && idx <= len(conditions)
//@   loop 1 invariant forall j int :: 0 <= j && j < idx ==> !condMatch(conditions[j], cp.Type)

// A CEL probe reports failures under its own message: NewCELProbe returns a probe object of its own carrying exactly the
// message it was given (nothing is shared between probes that happen to have the same rule), and writes nothing else.
//@ func package-operator.run/pkg/probing.NewCELProbe
//@   assigns mem
//@   ensures [C17] result1 == nil && result0 != nil ==> result0.Message == message
