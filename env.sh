# sourced by every script: offline Go environment for /repo (workspace, needs go1.23.8 toolchain from module cache)
export PATH=/root/go/pkg/mod/golang.org/toolchain@v0.0.1-go1.23.8.linux-amd64/bin:$PATH
export GOTOOLCHAIN=local GOPROXY=off GOSUMDB=off
unset GOFLAGS
