#!/bin/bash
# usage: selftest_apply.sh <patch.diff> <PROP> [more props]  -- applies patch to /repo, runs checks, reverts. Prints summary.
P="$(realpath "$1")"; shift
git -C /repo apply "$P" || { echo "PATCH DOES NOT APPLY"; exit 2; }
for id in "$@"; do
  out=$(VERIF_NO_EVIDENCE=1 /verif/check $id 2>&1); rc=$?
  echo "== $id rc=$rc"; echo "$out" | grep -E "VIOLATION|failed obligation|KNOWN|obligations," | head -${MAXL:-12}
done
git -C /repo checkout -- . 
git -C /repo status --short | head -3
