import sys, time
from z3 import *
NG, NO = int(sys.argv[1]), int(sys.argv[2]); mutant = sys.argv[3]
GVK, gs = EnumSort('GVK', [f'g{i}' for i in range(NG)])
Own, os_ = EnumSort('Owner', [f'o{i}' for i in range(NO)])
OSet = ArraySort(Own, BoolSort())
def card(s): return Sum([If(Select(s,x),1,0) for x in os_])
def empty(s): return And([Not(Select(s,x)) for x in os_])
dom0=Array('dom0',GVK,BoolSort()); refs0=Array('refs0',GVK,OSet); run0=Array('run0',GVK,BoolSort())
dom=Array('dom',GVK,BoolSort()); refs=Array('refs',GVK,OSet); run=Array('run',GVK,BoolSort()); vis=Array('vis',GVK,BoolSort())
o=Const('o',Own); k=Const('k',GVK)
def minus(s): return Store(s,o,False)
def seteq(a,b): return And([Select(a,x)==Select(b,x) for x in os_])
def Inv(dom,refs,run,vis):
    cs=[]
    for g in gs:
        cs.append(Implies(Select(vis,g),Select(dom0,g)))
        cs.append(Implies(And(Select(dom0,g),Not(Select(vis,g))),And(Select(dom,g),seteq(Select(refs,g),Select(refs0,g)),Select(run,g)==Select(run0,g))))
        cs.append(Implies(Select(vis,g),And(Select(dom,g)==Not(empty(minus(Select(refs0,g)))),Implies(Select(dom,g),seteq(Select(refs,g),minus(Select(refs0,g)))),Select(run,g)==Select(dom,g))))
        cs.append(Implies(Not(Select(dom0,g)),And(Not(Select(dom,g)),Select(run,g)==Select(run0,g))))
    return And(cs)
s=Solver()
for g in gs:
    s.add(Select(dom0,g)==Select(run0,g)); s.add(Implies(Select(dom0,g),Not(empty(Select(refs0,g)))))
s.add(Inv(dom,refs,run,vis)); s.add(Select(dom,k),Select(dom0,k),Not(Select(vis,k)))
rk=Select(refs,k); member=Select(rk,o); rk1=If(member,Store(rk,o,False),rk)
empties=And(member, card(rk1)==0) if mutant!='mut2' else member
refs1=Store(refs,k,rk1)
dom1=If(empties,Store(dom,k,False),dom) if mutant!='mut1' else dom
run1=If(empties,Store(run,k,False),run); vis1=Store(vis,k,True)
if mutant!='cover': s.add(Not(Inv(dom1,refs1,run1,vis1)))
t=time.time(); r=s.check(); print(mutant, r, f'{time.time()-t:.2f}s')
if r==sat:
    m=s.model()
    print(' o=',m[o],' k=',m[k])
    for g in gs: print('  ',g,'dom0',m.eval(Select(dom0,g)),'refs0',[str(x) for x in os_ if is_true(m.eval(Select(Select(refs0,g),x)))],'vis',m.eval(Select(vis,g)),'refs',[str(x) for x in os_ if is_true(m.eval(Select(Select(refs,g),x)))])
