#!/bin/bash
# usage: seed_confirm.sh <ID-dir-name> : confirms a seeded change in a fresh scratch worktree:
#  demo FAILS with the patch, PASSES without; touched packages' existing tests pass with the patch.
ID="$1"; SRC="${2:-/tmp/seedout/$ID}"
source /verif/env.sh
WT=/tmp/seedconfirm/$ID; rm -rf $WT; mkdir -p /tmp/seedconfirm
git -C /repo worktree add --detach $WT HEAD >/dev/null 2>&1 || { echo "$ID: worktree failed"; exit 2; }
place=$(python3 -c "import json;print(json.load(open('$SRC/meta.json'))['demo_place'])")
demofile=$(ls $SRC | grep -v meta.json | grep -v patch.diff | head -1)
pkgdir=$(dirname $place)
run=$(python3 -c "
import json,re
c=json.load(open('$SRC/meta.json'))['demo_cmd']
m=re.search(r'go test .*', c); print(m.group(0))")
cd $WT
cp $SRC/$demofile $WT/$place
# without patch
( eval "$run" ) > /tmp/seedconfirm/$ID.without.log 2>&1; rc_without=$?
git apply $SRC/patch.diff || { echo "$ID: patch does not apply"; exit 2; }
( eval "$run" ) > /tmp/seedconfirm/$ID.with.log 2>&1; rc_with=$?
rm -f $WT/$place
touched=$(git diff --name-only | xargs -n1 dirname | sort -u | sed 's|^|./|' | tr '\n' ' ')
mod=.
case "$touched" in ./pkg/*) mod=pkg; touched=$(echo $touched | sed 's|./pkg/|./|g');; esac
( cd $mod && go build ./... && go test -vet=off -count=1 $touched ) > /tmp/seedconfirm/$ID.existing.log 2>&1; rc_existing=$?
echo "$ID: demo without patch rc=$rc_without (want 0), with patch rc=$rc_with (want !=0), existing tests of [$touched] with patch rc=$rc_existing (want 0)"
cd /; git -C /repo worktree remove --force $WT
