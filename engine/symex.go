package main

import (
	"sync"
	"fmt"
	"go/constant"
	"go/token"
	"go/types"
	"sort"
	"strings"

	"golang.org/x/tools/go/ssa"
)

type engineErr string

type Obligation struct {
	Name      string
	Func      string
	Kind      string
	Goal      string // human-readable
	Pos       string
	Script    string
	File      string
	Props     []string
	ExpectSat bool // cover obligations
	Result    *SolverResult
	Bounded   bool
	OptKey    string // set for obligations of an optional invariant: its key in droppedInvariants
}

// Exec is the symbolic execution of one top-level function (plus inlined callees) into one SMT script.
type Exec struct {
	P    *Program
	S    *Specs
	D    *Decls
	Prop string // property filter for clauses ("" = all)
	ghostWriters map[string]map[string]bool // model field -> contracts that may write it
	bindings map[string]map[string]*BindDesc // pinned-tree descriptors of contract names (rename tolerance)
	bindRec  map[string]map[string]*BindDesc // recorded during this run (when asked to)
	siteMatched map[int]bool // indexes of site clauses of the top contract that matched some program point
	sortPerms       map[string]string // "<function>#<n>" -> permutation function of the n-th sort.Slice call
	optionalOb      string // key of the optional invariant whose obligation is being emitted
	optionalDropped bool   // an optional invariant was dropped while generating (the function must be generated again)
	immCells map[string]Val // address term of a write-once cell (parameter captured by a closure, never reassigned) -> its value
	Mode string // "contract" | "sweep"

	top   *ssa.Function
	body  []string
	obs   []*Obligation
	cnt   int
	notes map[string]bool

	epochCtr      int
	entryEpoch    int
	arrSorts      map[string]Sort
	mapKeySort    map[string]Sort
	mapPtrValued  map[string]bool
	mapSliceValued map[string]bool
	declaredConst map[string]bool
	declaredFun   map[string]bool
	lastRef       string
	specAxiomsOut bool
	obNames       map[string]int
	unknownCalls  map[string]int
	rejected      string
	usedSpecs     map[string]bool
	inlineDepth   int
	sweepSafe     bool // generate safety obligations
	closureByTerm map[string]*closureRec
	pend          []*pendingOb
	frozen        *MemState
	topContract   *Contract
	topEntry      *MemState
	sweepOnly     bool
}

type closureRec struct {
	fn    *ssa.Function
	binds []Val
}

// Frame is the per-function (or per-inlined-call) state.
type Frame struct {
	ex       *Exec
	fn       *ssa.Function
	contract *Contract
	vals     map[ssa.Value]Val
	tuples   map[ssa.Value][]Val
	reach    map[*ssa.BasicBlock]string
	memOut   map[*ssa.BasicBlock]*MemState
	memIn    map[*ssa.BasicBlock]*MemState
	edge     map[[2]int]string // extra edge condition pred->succ
	entryMem *MemState
	curMem   *MemState
	curReach string
	curBlock *ssa.BasicBlock
	params   map[string]Val
	defers   []deferRec
	returns  []retRec
	loops    map[*ssa.BasicBlock]*loopInfo
	loopOrd  map[*ssa.BasicBlock]int
	iters    map[ssa.Value]*iterInfo
	freeVars map[*ssa.FreeVar]Val
	closures map[ssa.Value]*ssa.MakeClosure
	mapsFree    bool        // contract lists "maps" in assigns
	parentFrame *Frame      // the frame this one is inlined into (nil for the top function)
	cells       []localCell // leaves of local variables whose address never escapes
	siteCount map[string]int
	isTop    bool
	names    map[string]Val // extra names for contract evaluation (results etc.)
	callOrd  map[*ssa.Call]int
	panicked []string
}

type deferRec struct {
	instr *ssa.Defer
	cond  string
}
type retRec struct {
	reach   string
	results []Val
	mem     *MemState
	instr   *ssa.Return
}
type loopInfo struct {
	head  *ssa.BasicBlock
	body  map[*ssa.BasicBlock]bool
	backs []*ssa.BasicBlock
	ord   int
	spec  *LoopSpec
	anchors []string // callee patterns of the anchored loop specs ("loop @callee …") attached to this loop
	phiHavoc map[*ssa.Phi]Val
	entryMemForOld *MemState
	frameBase string
	entryPhi  map[*ssa.Phi]Val
}
type iterInfo struct {
	isMap   bool
	mt      *types.Map
	mref    string
	visited string // array name in mem
	count      string // scalar in mem: number of keys produced so far
	rangeInstr *ssa.Range
	entryHas string
	str     Val
}

func newExec(P *Program, S *Specs, prop, mode string) *Exec {
	ex := newExec0(P, S, prop, mode)
	for _, c := range [][2]string{{"M_Int", "Int"}, {"M_Bool", "Bool"}, {"M_Str", "Str"}, {"M_Ref", "Int"}, {"M_Iface", "Iface"}, {"M_Slice", "Slice"}, {"M_Real", "Real"}} {
		ex.arrSorts[c[0]] = Sort("(Array Int " + c[1] + ")")
	}
	for _, tn := range S.GoSortTypes { // datatypes named in spec files are declared up front
		if t := ex.resolveType(tn); t != nil {
			if _, ok := t.Underlying().(*types.Struct); ok {
				ex.D.structOf(t)
			}
		}
	}
	ex.bindings = globalBindings
	if globalBindRecOn {
		ex.bindRec = map[string]map[string]*BindDesc{}
		globalBindRecMu.Lock()
		globalBindRecs = append(globalBindRecs, ex)
		globalBindRecMu.Unlock()
	}
	return ex
}

var (
	globalBindings  map[string]map[string]*BindDesc
	globalBindRecOn bool
	globalBindRecMu sync.Mutex
	globalBindRecs  []*Exec
)

func newExec0(P *Program, S *Specs, prop, mode string) *Exec {
	return &Exec{P: P, S: S, D: newDecls(), Prop: prop, Mode: mode, notes: map[string]bool{}, arrSorts: map[string]Sort{}, mapKeySort: map[string]Sort{}, mapPtrValued: map[string]bool{}, mapSliceValued: map[string]bool{},
		declaredConst: map[string]bool{}, declaredFun: map[string]bool{}, obNames: map[string]int{}, unknownCalls: map[string]int{}, usedSpecs: map[string]bool{}, closureByTerm: map[string]*closureRec{}}
}

func (ex *Exec) emit(format string, a ...any) { ex.body = append(ex.body, fmt.Sprintf(format, a...)) }
func (ex *Exec) note(format string, a ...any) { ex.notes[fmt.Sprintf(format, a...)] = true }

func (ex *Exec) fresh(hint string, s Sort) string {
	ex.cnt++
	n := fmt.Sprintf("%s_%d", sanitizeKeepBang(hint), ex.cnt)
	ex.emit("(declare-const %s %s)", n, s)
	return n
}

func sanitizeKeepBang(s string) string {
	var b strings.Builder
	for _, r := range s {
		switch {
		case r >= 'a' && r <= 'z', r >= 'A' && r <= 'Z', r >= '0' && r <= '9', r == '_', r == '!':
			b.WriteRune(r)
		default:
			b.WriteRune('_')
		}
	}
	return b.String()
}

// define names a term.
func (ex *Exec) define(hint string, s Sort, term string) string {
	if !strings.HasPrefix(term, "(") {
		return term // already atomic
	}
	n := ex.fresh(hint, s)
	ex.emit("(assert (= %s %s))", n, term)
	return n
}

func (ex *Exec) assume(cond, reach string) {
	if cond == "true" {
		return
	}
	ex.emit("(assert %s)", implies(reach, cond))
}

// freshRef allocates a new non-nil base reference distinct from everything older.
func (ex *Exec) freshRef(hint string) string {
	r := ex.fresh(hint, SInt)
	prev := ex.lastRef
	if prev == "" {
		prev = "allocbase"
	}
	ex.emit("(assert (and (> %s %s) (= (akind %s) 0) (= (root %s) %s)))", r, prev, r, r, r)
	ex.lastRef = r
	return r
}

// script assembles the SMT script for the obligation "assumptions up to idx imply goal".
func (ex *Exec) scriptFor(idx int, negGoal string) string {
	var b strings.Builder
	b.WriteString(prelude)
	for _, ph := range ex.S.Placeholders {
		b.WriteString("(declare-sort " + ph + " 0)\n")
	}
	for _, l := range ex.D.lines {
		b.WriteString(l)
		b.WriteByte('\n')
	}
	for _, l := range ex.body[:idx] {
		b.WriteString(l)
		b.WriteByte('\n')
	}
	b.WriteString("(assert " + negGoal + ")\n(check-sat)\n")
	return b.String()
}

// Because declarations (ex.D.lines) grow while executing, scripts are materialised at the end.
type pendingOb struct {
	ob   *Obligation
	idx  int
	goal string // formula that must be valid (under reach)
	cover bool
}


func (ex *Exec) oblige(kind, detail, goal, reach, human string, pos token.Pos, props []string) {
	name := fmt.Sprintf("%s/%s", shortName(canonName(ex.top)), kind)
	if detail != "" {
		name += "/" + detail
	}
	ex.obNames[name]++
	if n := ex.obNames[name]; n > 1 {
		name = fmt.Sprintf("%s~%d", name, n)
	}
	ob := &Obligation{Name: name, Func: shortName(canonName(ex.top)), Kind: kind, Goal: human, Pos: posOf(ex.P, pos), Props: props, OptKey: ex.optionalOb}
	ex.obs = append(ex.obs, ob)
	ex.pend = append(ex.pend, &pendingOb{ob: ob, idx: len(ex.body), goal: and(reach, not(goal))})
}

func (ex *Exec) cover(detail, cond, human string, pos token.Pos) {
	name := fmt.Sprintf("%s/cover/%s", shortName(canonName(ex.top)), detail)
	ob := &Obligation{Name: name, Func: shortName(canonName(ex.top)), Kind: "cover", Goal: human, Pos: posOf(ex.P, pos), ExpectSat: true}
	ex.obs = append(ex.obs, ob)
	ex.pend = append(ex.pend, &pendingOb{ob: ob, idx: len(ex.body), goal: cond, cover: true})
}

func (ex *Exec) finish() {
	for _, p := range ex.pend {
		p.ob.Script = ex.scriptFor(p.idx, p.goal)
	}
	ex.pend = nil
}

func (ex *Exec) failOb(kind, detail, msg string, pos token.Pos) {
	name := fmt.Sprintf("%s/%s", shortName(canonName(ex.top)), kind)
	if detail != "" {
		name += "/" + detail
	}
	ex.obNames[name]++
	if n := ex.obNames[name]; n > 1 {
		name = fmt.Sprintf("%s~%d", name, n)
	}
	ob := &Obligation{Name: name, Func: shortName(canonName(ex.top)), Kind: kind, Goal: msg, Pos: posOf(ex.P, pos),
		Result: &SolverResult{Status: "engine", Output: msg}}
	ex.obs = append(ex.obs, ob)
}

// ---- values ----

func (fr *Frame) val(v ssa.Value) Val {
	ex := fr.ex
	if x, ok := fr.vals[v]; ok {
		return x
	}
	switch c := v.(type) {
	case *ssa.Const:
		return ex.constVal(c)
	case *ssa.Global:
		// address of a package-level variable: stable address per global
		name := "glob_" + sanitize(c.Pkg.Pkg.Path()+"."+c.Name())
		if !ex.declaredConst[name] {
			ex.declaredConst[name] = true
			ex.D.add("(declare-const %s Int)", name)
			ex.D.add("(assert (and (> %s 0) (<= %s allocbase) (= (akind %s) 0) (= (root %s) %s)))", name, name, name, name, name)
		}
		return Val{T: name, S: SInt, G: c.Type()}
	case *ssa.Function:
		name := "fn_" + sanitize(canonNameAny(c))
		if !ex.declaredConst[name] {
			ex.declaredConst[name] = true
			ex.D.add("(declare-const %s Int)", name)
			ex.D.add("(assert (> %s 0))", name)
		}
		return Val{T: name, S: SInt, G: c.Type()}
	case *ssa.FreeVar:
		if x, ok := fr.freeVars[c]; ok {
			return x
		}
		x := Val{T: ex.fresh("fv_"+c.Name(), ex.D.sortOf(c.Type())), S: ex.D.sortOf(c.Type()), G: c.Type()}
		fr.freeVars[c] = x
		return x
	case *ssa.Builtin:
		return Val{T: "0", S: SInt, G: c.Type()}
	}
	panic(engineErr(fmt.Sprintf("value %s (%T) used before definition in %s", v.Name(), v, fr.fn.Name())))
}

func canonNameAny(fn *ssa.Function) string {
	defer func() { recover() }()
	return canonName(fn)
}

func (ex *Exec) constVal(c *ssa.Const) Val {
	t := c.Type()
	s := ex.D.sortOf(t)
	if c.Value == nil {
		return Val{T: ex.D.zero(t), S: s, G: t}
	}
	switch c.Value.Kind() {
	case constant.Bool:
		if constant.BoolVal(c.Value) {
			return Val{"true", SBool, t}
		}
		return Val{"false", SBool, t}
	case constant.String:
		return Val{ex.D.strLit(constant.StringVal(c.Value)), SStr, t}
	case constant.Int:
		if s == SReal {
			return Val{c.Value.ExactString() + ".0", SReal, t}
		}
		if i, ok := constant.Int64Val(c.Value); ok {
			return Val{intLit(i), SInt, t}
		}
		str := c.Value.ExactString()
		if strings.HasPrefix(str, "-") {
			return Val{"(- " + str[1:] + ")", SInt, t}
		}
		return Val{str, SInt, t}
	case constant.Float:
		f, _ := constant.Float64Val(c.Value)
		if s == SInt {
			return Val{intLit(int64(f)), SInt, t}
		}
		str := fmt.Sprintf("%f", f)
		if f < 0 {
			str = fmt.Sprintf("(- %f)", -f)
		}
		return Val{str, SReal, t}
	}
	return Val{T: ex.fresh("const", s), S: s, G: t}
}

func (fr *Frame) set(v ssa.Value, term string) {
	ex := fr.ex
	s := ex.D.sortOf(v.Type())
	hint := v.Name()
	fr.vals[v] = Val{T: ex.define(hint, s, term), S: s, G: v.Type()}
	if st, ok := v.Type().Underlying().(*types.Slice); ok {
		ex.sliceElemAssume(fr.vals[v], st, fr.curReach)
	}
}

// sliceElemAssume: the backing array of a non-nil slice of static type []E is an allocation of E elements.
func (ex *Exec) sliceElemAssume(v Val, st *types.Slice, reach string) {
	ex.assume(fmt.Sprintf("(=> (not (= (sarr %s) 0)) (= (aty (root (sarr %s))) %d))", v.T, v.T, ex.D.tagOf(st.Elem())), reach)
}

// typeAssume emits basic type invariants of a symbolic value.
func (ex *Exec) typeAssume(v Val, t types.Type, reach string, old bool) {
	switch u := t.Underlying().(type) {
	case *types.Basic:
		if u.Info()&types.IsInteger != 0 {
			lo, hi := intRange(u.Kind())
			if lo != "" {
				ex.assume(fmt.Sprintf("(and (>= %s %s) (<= %s %s))", v.T, lo, v.T, hi), reach)
			}
		}
	case *types.Slice:
		ex.assume(fmt.Sprintf("(and (>= (slen %s) 0) (>= (soff %s) 0) (>= (scap %s) (slen %s)) (=> (= (sarr %s) 0) (= (slen %s) 0)))", v.T, v.T, v.T, v.T, v.T, v.T), reach)
		ex.sliceElemAssume(v, u, reach)
		if old {
			ex.assume(fmt.Sprintf("(<= (root (sarr %s)) allocbase)", v.T), reach)
		}
	case *types.Pointer, *types.Map, *types.Chan:
		ex.assume(fmt.Sprintf("(>= %s 0)", v.T), reach)
		if old {
			ex.assume(fmt.Sprintf("(<= (root %s) allocbase)", v.T), reach)
		}
	case *types.Interface:
		ex.assume(fmt.Sprintf("(and (>= (itag %s) 0) (= (= (itag %s) 0) (= %s (mkI 0 0))))", v.T, v.T, v.T), reach)
		if old {
			ex.assume(fmt.Sprintf("(<= (root (ival %s)) allocbase)", v.T), reach)
		}
	}
}

func intRange(k types.BasicKind) (string, string) {
	switch k {
	case types.Int8:
		return "(- 128)", "127"
	case types.Int16:
		return "(- 32768)", "32767"
	case types.Int32:
		return "(- 2147483648)", "2147483647"
	case types.Int, types.Int64:
		return "(- 9223372036854775808)", "9223372036854775807"
	case types.Uint8:
		return "0", "255"
	case types.Uint16:
		return "0", "65535"
	case types.Uint32:
		return "0", "4294967295"
	case types.Uint, types.Uint64, types.Uintptr:
		return "0", "18446744073709551615"
	}
	return "", ""
}

// ---- CFG helpers ----

func isBackEdge(p, h *ssa.BasicBlock) bool { return h.Dominates(p) }

func (fr *Frame) findLoops() bool {
	fn := fr.fn
	fr.loops = map[*ssa.BasicBlock]*loopInfo{}
	for _, b := range fn.Blocks {
		for _, s := range b.Succs {
			if isBackEdge(b, s) {
				li := fr.loops[s]
				if li == nil {
					li = &loopInfo{head: s, body: map[*ssa.BasicBlock]bool{s: true}}
					fr.loops[s] = li
				}
				li.backs = append(li.backs, b)
				// natural loop
				stack := []*ssa.BasicBlock{b}
				for len(stack) > 0 {
					x := stack[len(stack)-1]
					stack = stack[:len(stack)-1]
					if li.body[x] {
						continue
					}
					li.body[x] = true
					stack = append(stack, x.Preds...)
				}
			}
		}
	}
	// order loops by source position of the header's first positioned instruction
	var heads []*ssa.BasicBlock
	for h := range fr.loops {
		heads = append(heads, h)
	}
	sort.Slice(heads, func(i, j int) bool { return heads[i].Index < heads[j].Index }) // block order follows source order
	for i, h := range heads {
		fr.loops[h].ord = i + 1
		if fr.contract != nil {
			fr.loops[h].spec = fr.contract.Loops[i+1]
		}
	}
	// anchored loop specs ("loop @callee …"): the innermost loop whose body calls callee
	if fr.contract != nil {
		for _, pat := range sortedKeys(fr.contract.AnchoredLoops) {
			spec := fr.contract.Loops[fr.contract.AnchoredLoops[pat]]
			var best *loopInfo
			for _, h := range heads {
				li := fr.loops[h]
				hit := false
				for b := range li.body {
					for _, in := range b.Instrs {
						if cc := callCommonOf(in); cc != nil {
							if _, isB := cc.Value.(*ssa.Builtin); isB {
								continue
							}
							if !cc.IsInvoke() && cc.StaticCallee() == nil {
								continue // calls of function values: not usable as anchors
							}
							if siteMatches(fr.calleeDisplayQuick(cc), pat) {
								hit = true
							}
						}
					}
				}
				if hit && (best == nil || len(li.body) < len(best.body)) {
					best = li
				}
			}
			if best == nil || spec == nil {
				continue
			}
			merged := &LoopSpec{Ord: best.ord}
			if best.spec != nil {
				*merged = *best.spec
				merged.Invs = append([]Clause{}, best.spec.Invs...)
			}
			best.anchors = append(best.anchors, pat)
			merged.Invs = append(merged.Invs, spec.Invs...)
			merged.Assigns = append(merged.Assigns, spec.Assigns...)
			if spec.IsOrderFree {
				merged.IsOrderFree = true
			}
			best.spec = merged
		}
	}
	return true
}

func loopPos(li *loopInfo) token.Pos {
	best := token.Pos(1 << 30)
	for b := range li.body {
		for _, in := range b.Instrs {
			if p := in.Pos(); p.IsValid() && p < best {
				best = p
			}
		}
	}
	return best
}

// rpo returns blocks in reverse post-order ignoring back edges.
func (fr *Frame) rpo() []*ssa.BasicBlock {
	seen := map[*ssa.BasicBlock]bool{}
	var post []*ssa.BasicBlock
	var dfs func(b *ssa.BasicBlock)
	dfs = func(b *ssa.BasicBlock) {
		seen[b] = true
		for _, s := range b.Succs {
			if !seen[s] && !isBackEdge(b, s) {
				dfs(s)
			}
		}
		post = append(post, b)
	}
	dfs(fr.fn.Blocks[0])
	for i, j := 0, len(post)-1; i < j; i, j = i+1, j-1 {
		post[i], post[j] = post[j], post[i]
	}
	return post
}

func newFrame(ex *Exec, fn *ssa.Function) *Frame {
	return &Frame{ex: ex, fn: fn, vals: map[ssa.Value]Val{}, tuples: map[ssa.Value][]Val{}, reach: map[*ssa.BasicBlock]string{},
		memOut: map[*ssa.BasicBlock]*MemState{}, memIn: map[*ssa.BasicBlock]*MemState{}, edge: map[[2]int]string{}, params: map[string]Val{},
		iters: map[ssa.Value]*iterInfo{}, freeVars: map[*ssa.FreeVar]Val{}, closures: map[ssa.Value]*ssa.MakeClosure{}, siteCount: map[string]int{},
		names: map[string]Val{}, callOrd: map[*ssa.Call]int{}}
}

// edgeCond returns the condition under which control flows from p to s (given p was reached).
func (fr *Frame) edgeCond(p, s *ssa.BasicBlock) string {
	base := fr.reach[p]
	if base == "" {
		return "false"
	}
	if len(p.Instrs) == 0 {
		return base
	}
	switch last := p.Instrs[len(p.Instrs)-1].(type) {
	case *ssa.If:
		c := fr.val(last.Cond).T
		if p.Succs[0] == s && p.Succs[1] == s {
			return base
		}
		if p.Succs[0] == s {
			return and(base, c)
		}
		return and(base, not(c))
	case *ssa.Jump:
		return base
	default:
		return "false" // return/panic
	}
}

// run executes the whole function body; entry reach and memory must be set up by the caller.
func (fr *Frame) run(entryReach string, entryMem *MemState) {
	ex := fr.ex
	fn := fr.fn
	if len(fn.Blocks) == 0 {
		panic(engineErr("function has no body: " + fn.String()))
	}
	fr.entryMem = entryMem
	fr.findLoops()
	order := fr.rpo()
	for _, b := range order {
		var reach string
		var mem *MemState
		li := fr.loops[b]
		if b == fn.Blocks[0] {
			reach, mem = entryReach, entryMem.clone()
		} else {
			var conds []string
			var mems []*MemState
			for _, p := range b.Preds {
				if li != nil && li.body[p] && isBackEdge(p, b) {
					continue
				}
				if _, done := fr.reach[p]; !done {
					continue // unreachable pred (e.g. after panic) or not yet processed
				}
				c := fr.edgeCond(p, b)
				if c == "false" {
					continue
				}
				conds = append(conds, c)
				mems = append(mems, fr.memOut[p])
			}
			if len(conds) == 0 {
				fr.reach[b] = "false"
				fr.memOut[b] = entryMem
				// still need phi values defined for later uses: give arbitrary
				for _, in := range b.Instrs {
					if v, ok := in.(ssa.Value); ok {
						if _, isT := v.Type().(*types.Tuple); isT {
							continue
						}
						s := ex.D.sortOf(v.Type())
						fr.vals[v] = Val{T: ex.fresh("dead_"+v.Name(), s), S: s, G: v.Type()}
					}
				}
				continue
			}
			rname := ex.fresh(fmt.Sprintf("reach_b%d", b.Index), SBool)
			ex.emit("(assert (= %s %s))", rname, or(conds...))
			reach = rname
			mem = ex.mergeMem(mems, conds)
		}
		fr.curBlock, fr.curReach, fr.curMem = b, reach, mem
		fr.reach[b] = reach
		fr.memIn[b] = mem
		if li != nil {
			fr.enterLoop(li, b)
		}
		for _, in := range b.Instrs {
			fr.instr(in)
		}
		fr.memOut[b] = fr.curMem
		fr.reach[b] = fr.curReach // calls that may not return narrow the reach of the rest of the block
		// "at loopexit#N assert e": checked on the edge that leaves loop N from its head (the loop ran to completion)
		if l0 := fr.loops[b]; l0 != nil && (fr.isTop || len(l0.anchors) > 0) && ex.topContract != nil {
			for _, sc := range b.Succs {
				if !l0.body[sc] {
					fr.loopExitClauses(l0, b, sc)
				}
			}
		}
		// back edges out of this block: check invariants
		for _, s := range b.Succs {
			if l2 := fr.loops[s]; l2 != nil && l2.body[b] && isBackEdge(b, s) {
				fr.checkBackEdge(l2, b)
			}
		}
	}
}

// phiIncoming computes the phi value for edges selected by pick (entry edges or one back edge).
func (fr *Frame) phiFromEdges(phi *ssa.Phi, preds []*ssa.BasicBlock) string {
	b := phi.Block()
	var terms, conds []string
	for i, p := range b.Preds {
		use := false
		for _, q := range preds {
			if q == p {
				use = true
			}
		}
		if !use {
			continue
		}
		if _, done := fr.reach[p]; !done {
			continue
		}
		c := fr.edgeCond(p, b)
		if c == "false" {
			continue
		}
		terms = append(terms, fr.val(phi.Edges[i]).T)
		conds = append(conds, c)
	}
	if len(terms) == 0 {
		return fr.ex.D.zero(phi.Type())
	}
	e := terms[len(terms)-1]
	for i := len(terms) - 2; i >= 0; i-- {
		e = ite(conds[i], terms[i], e)
	}
	return e
}

func (fr *Frame) instr(in ssa.Instruction) {
	ex := fr.ex
	switch x := in.(type) {
	case *ssa.DebugRef:
		return
	case *ssa.Phi:
		if li := fr.loops[x.Block()]; li != nil {
			if hv, ok := li.phiHavoc[x]; ok {
				fr.vals[x] = hv
				return
			}
		}
		fr.set(x, fr.phiFromEdges(x, x.Block().Preds))
	case *ssa.BinOp:
		fr.binop(x)
	case *ssa.UnOp:
		fr.unop(x)
	case *ssa.Alloc:
		r := ex.freshRef("alloc_" + sanitize(x.Comment))
		fr.vals[x] = Val{T: r, S: SInt, G: x.Type()}
		if nonEscaping(x, 0) {
			ex.leafAddrs(x.Type().Underlying().(*types.Pointer).Elem(), r, func(arr, addr string) {
				fr.cells = append(fr.cells, localCell{arr: arr, addr: addr, alloc: x})
			})
		}
		// zero-initialise
		et := x.Type().Underlying().(*types.Pointer).Elem()
		if _, isArr := et.Underlying().(*types.Array); !isArr {
			ex.store(fr.curMem, et, r, ex.D.zero(et))
		}
		if ut := ex.unstructuredType(); ut != nil && types.Identical(et, ut) && !allocGetsObjectField(x) {
			// a zero unstructured object: its content map is modelled as allocated eagerly (fresh, empty); see DESIGN §5
			ex.needUmap()
			m := ex.freshRef("umap_" + sanitize(x.Comment))
			ex.emit("(assert (= (umap %s) %s))", r, m)
			mt := ut.Underlying().(*types.Struct).Field(0).Type()
			ex.store(fr.curMem, mt, ex.D.fieldAddr(ut, 0, r), m)
			if mm, ok := mt.Underlying().(*types.Map); ok {
				has, _, ks, _ := ex.mapArrays(mm)
				ex.memSet(fr.curMem, has, fmt.Sprintf("(store %s %s ((as const (Array %s Bool)) false))", ex.memGet(fr.curMem, has), m, ks))
				ex.memSet(fr.curMem, "ML", fmt.Sprintf("(store %s %s 0)", ex.memGet(fr.curMem, "ML"), m))
			}
		}
	case *ssa.FieldAddr:
		pt := x.X.Type().Underlying().(*types.Pointer).Elem()
		base := fr.val(x.X)
		fr.nilCheck(base, x.X, x.Pos(), "field access")
		fr.set(x, ex.D.fieldAddr(pt, x.Field, base.T))
	case *ssa.Field:
		si := ex.D.structOf(x.X.Type())
		fr.set(x, fmt.Sprintf("(%s_f%d %s)", si.id, x.Field, fr.val(x.X).T))
	case *ssa.IndexAddr:
		fr.indexAddr(x)
	case *ssa.Index:
		fr.index(x)
	case *ssa.Store:
		addr := fr.val(x.Addr)
		fr.nilCheck(addr, x.Addr, x.Pos(), "store")
		et := x.Addr.Type().Underlying().(*types.Pointer).Elem()
		ex.store(fr.curMem, et, addr.T, fr.val(x.Val).T)
		if al, ok := x.Addr.(*ssa.Alloc); ok && writeOnceCell(al, x) {
			if ex.immCells == nil {
				ex.immCells = map[string]Val{}
			}
			ex.immCells[addr.T] = fr.val(x.Val)
		}
	case *ssa.Extract:
		tv := fr.tuples[x.Tuple]
		if tv == nil {
			panic(engineErr("extract from unknown tuple " + x.Tuple.Name()))
		}
		fr.vals[x] = tv[x.Index]
		if st, ok := x.Type().Underlying().(*types.Slice); ok {
			fr.ex.sliceElemAssume(fr.vals[x], st, fr.curReach)
		}
	case *ssa.Call:
		res := fr.call(x, &x.Call)
		fr.bindResults(x, res)
	case *ssa.MakeInterface:
		fr.set(x, ex.makeIface(x.X.Type(), fr.val(x.X).T))
	case *ssa.ChangeInterface:
		fr.vals[x] = Val{T: fr.val(x.X).T, S: SIface, G: x.Type()}
	case *ssa.ChangeType:
		v := fr.val(x.X)
		fr.vals[x] = Val{T: v.T, S: ex.D.sortOf(x.Type()), G: x.Type()}
		if ex.D.sortOf(x.Type()) != v.S {
			// struct conversion between identical underlying types with distinct datatypes
			fr.set(x, ex.convertStruct(v, x.X.Type(), x.Type()))
		}
	case *ssa.Convert:
		fr.convert(x)
	case *ssa.TypeAssert:
		fr.typeAssert(x)
	case *ssa.MakeSlice:
		r := ex.freshRef("mkslice")
		l := fr.val(x.Len).T
		c := fr.val(x.Cap).T
		fr.set(x, fmt.Sprintf("(mkS %s 0 %s %s)", r, l, c))
		fr.zeroFill(x.Type().Underlying().(*types.Slice).Elem(), r)
	case *ssa.MakeMap:
		r := ex.freshRef("mkmap")
		mt := x.Type().Underlying().(*types.Map)
		has, _, ks, _ := ex.mapArrays(mt)
		h := ex.memGet(fr.curMem, has)
		ex.memSet(fr.curMem, has, fmt.Sprintf("(store %s %s ((as const (Array %s Bool)) false))", h, r, ks))
		ex.memSet(fr.curMem, "ML", fmt.Sprintf("(store %s %s 0)", ex.memGet(fr.curMem, "ML"), r))
		fr.vals[x] = Val{T: r, S: SInt, G: x.Type()}
	case *ssa.MakeChan:
		r := ex.freshRef("mkchan")
		fr.vals[x] = Val{T: r, S: SInt, G: x.Type()}
		ex.arraySort("CH_cap", "(Array Int Int)")
		ex.arraySort("CH_queued", "(Array Int Int)")
		ex.memSet(fr.curMem, "CH_cap", fmt.Sprintf("(store %s %s %s)", ex.memGet(fr.curMem, "CH_cap"), r, fr.val(x.Size).T))
		ex.memSet(fr.curMem, "CH_queued", fmt.Sprintf("(store %s %s 0)", ex.memGet(fr.curMem, "CH_queued"), r))
	case *ssa.MakeClosure:
		r := ex.freshRef("closure")
		fr.vals[x] = Val{T: r, S: SInt, G: x.Type()}
		fr.closures[x] = x
		var binds []Val
		for _, b := range x.Bindings {
			binds = append(binds, fr.val(b))
		}
		ex.closureByTerm[r] = &closureRec{fn: x.Fn.(*ssa.Function), binds: binds}
	case *ssa.MapUpdate:
		mt := x.Map.Type().Underlying().(*types.Map)
		m := fr.val(x.Map)
		if ex.sweepSafe {
			ex.oblige("safe", "nil-map-write", fmt.Sprintf("(not (= %s 0))", m.T), fr.curReach, "assignment to entry in nil map", x.Pos(), []string{"C19"})
		}
		fr.orderFreeCheck(x, m.T)
		mu, guardedMap := fr.guardedSource(x.Map, 0)
		if !guardedMap {
			if root := guardedRootLoad(x.Map, 0); root != nil {
				if u, ok := root.(*ssa.UnOp); ok {
					if fa, ok := u.X.(*ssa.FieldAddr); ok {
						mu, guardedMap = fr.guardedField(fa)
					}
				}
			}
		}
		if guardedMap {
			ex.oblige("lock", "write-map", fmt.Sprintf("(= %s 2)", fr.heldTerm(mu)), fr.curReach, "guarded map written while holding the write lock", x.Pos(), []string{"C12", "C20"})
			// ... and the map value written through was read in this critical section: no unlock of any mutex lies between
			// the read of the guarded field and this write (a value read under an earlier lock may be stale by now)
			if root := guardedRootLoad(x.Map, 0); root != nil {
				for _, b := range fr.fn.Blocks {
					for _, in := range b.Instrs {
						cl, isCall := in.(*ssa.Call)
						if !isCall {
							continue
						}
						d := fr.calleeDisplayQuick(&cl.Call)
						if d != "sync.(*RWMutex).Unlock" && d != "sync.(*RWMutex).RUnlock" && d != "sync.(*Mutex).Unlock" {
							continue
						}
						if instrDominates(root, cl) && instrDominates(cl, x) {
							ex.oblige("lock", "stale-map", "false", fr.curReach, "guarded map written through a value that was read before the lock was last released", x.Pos(), []string{"C12", "C20"})
						}
					}
				}
			}
		}
		ex.mapUpdate(fr.curMem, mt, m.T, fr.val(x.Key).T, fr.val(x.Value).T)
		// a map that holds a key has at least one entry
		ex.assume(fmt.Sprintf("(>= (select %s %s) 1)", ex.memGet(fr.curMem, "ML"), m.T), fr.curReach)
	case *ssa.Lookup:
		fr.lookup(x)
	case *ssa.Slice:
		fr.slice(x)
	case *ssa.Range:
		fr.rangeInstr(x)
	case *ssa.Next:
		fr.next(x)
	case *ssa.If, *ssa.Jump:
		return
	case *ssa.Return:
		var rs []Val
		for _, r := range x.Results {
			rs = append(rs, fr.val(r))
		}
		fr.returnSiteClauses(x, rs)
		fr.returns = append(fr.returns, retRec{reach: fr.curReach, results: rs, mem: fr.curMem, instr: x})
	case *ssa.Panic:
		fr.panicked = append(fr.panicked, fr.curReach)
		if ex.sweepSafe {
			fr.panicOb(x)
		}
	case *ssa.Defer:
		fr.defers = append(fr.defers, deferRec{instr: x, cond: fr.curReach})
	case *ssa.RunDefers:
		fr.runDefers()
	case *ssa.Go:
		fr.goStmt(x)
	case *ssa.Send:
		fr.send(x)
	case *ssa.Select:
		panic(engineErr("select statement not supported"))
	case *ssa.SliceToArrayPointer, *ssa.MultiConvert:
		panic(engineErr(fmt.Sprintf("%T not supported", in)))
	default:
		panic(engineErr(fmt.Sprintf("instruction %T not supported", in)))
	}
}

func (fr *Frame) bindResults(v ssa.Value, res []Val) {
	if tup, ok := v.Type().(*types.Tuple); ok {
		if tup.Len() != len(res) {
			panic(engineErr(fmt.Sprintf("result arity mismatch for %s: %d vs %d", v.Name(), tup.Len(), len(res))))
		}
		fr.tuples[v] = res
		return
	}
	if len(res) == 1 {
		fr.vals[v] = res[0]
		if st, ok := v.Type().Underlying().(*types.Slice); ok {
			fr.ex.sliceElemAssume(fr.vals[v], st, fr.curReach)
		}
	}
}

func (ex *Exec) makeIface(t types.Type, v string) string {
	if _, ok := t.Underlying().(*types.Interface); ok {
		return v
	}
	tag := ex.D.tagOf(t)
	payload := v
	if !isPointerLike(t) {
		payload = ex.D.box(ex.D.sortOf(t), v)
	}
	return fmt.Sprintf("(mkI %d %s)", tag, payload)
}

func (ex *Exec) convertStruct(v Val, from, to types.Type) string {
	fs, ok1 := from.Underlying().(*types.Struct)
	ts, ok2 := to.Underlying().(*types.Struct)
	if !ok1 || !ok2 {
		return v.T
	}
	fi := ex.D.structOf(from)
	ti := ex.D.structOf(to)
	if fs.NumFields() == 0 {
		return "mk_" + ti.id
	}
	var parts []string
	for i := 0; i < ts.NumFields(); i++ {
		parts = append(parts, fmt.Sprintf("(%s_f%d %s)", fi.id, i, v.T))
	}
	return fmt.Sprintf("(mk_%s %s)", ti.id, strings.Join(parts, " "))
}

func (fr *Frame) nilCheck(p Val, src ssa.Value, pos token.Pos, what string) {
	ex := fr.ex
	if !ex.sweepSafe {
		return
	}
	if !nilSuspect(src) {
		return
	}
	// the ledger of undischarged sweep obligations is kept per function and kind; for pointers loaded from a struct field
	// the kind carries the field name, so a new unguarded use of another optional field is not hidden by an old one
	detail := "nil-deref"
	if u, ok := src.(*ssa.UnOp); ok && u.Op == token.MUL {
		if fa, ok := u.X.(*ssa.FieldAddr); ok {
			if st, ok := fa.X.Type().Underlying().(*types.Pointer).Elem().Underlying().(*types.Struct); ok {
				detail = "nil-deref:" + st.Field(fa.Field).Name()
			}
		}
	}
	ex.oblige("safe", detail, fmt.Sprintf("(not (= %s 0))", p.T), fr.curReach, "nil pointer dereference ("+what+") of "+src.Name(), pos, []string{"C19"})
}

// nilSuspect: checked nil-dereference only for values from calls, lookups, loads of pointer fields, type asserts.
func nilSuspect(v ssa.Value) bool {
	switch x := v.(type) {
	case *ssa.Extract:
		if c, ok := x.Tuple.(*ssa.Call); ok {
			// (T, error) results: suspect
			_ = c
			return true
		}
		return true
	case *ssa.Call:
		return false // single pointer results are assumed non-nil unless contract says otherwise
	case *ssa.Lookup:
		return true
	case *ssa.UnOp:
		if x.Op == token.MUL {
			// loaded pointer: suspect when loaded from a struct field (optional API fields)
			if _, ok := x.X.(*ssa.FieldAddr); ok {
				return true
			}
		}
		return false
	case *ssa.Phi:
		for _, e := range x.Edges {
			if c, ok := e.(*ssa.Const); ok && c.Value == nil {
				return true
			}
		}
	}
	return false
}

func (fr *Frame) binop(x *ssa.BinOp) {
	ex := fr.ex
	a, b := fr.val(x.X), fr.val(x.Y)
	xt := x.X.Type().Underlying()
	isStr := a.S == SStr
	var t string
	switch x.Op {
	case token.ADD:
		if isStr {
			t = fmt.Sprintf("(strcat %s %s)", a.T, b.T)
		} else {
			t = fmt.Sprintf("(+ %s %s)", a.T, b.T)
		}
	case token.SUB:
		t = fmt.Sprintf("(- %s %s)", a.T, b.T)
	case token.MUL:
		t = fmt.Sprintf("(* %s %s)", a.T, b.T)
	case token.QUO:
		if a.S == SReal {
			t = fmt.Sprintf("(/ %s %s)", a.T, b.T)
		} else {
			if ex.sweepSafe {
				ex.oblige("safe", "div-zero", fmt.Sprintf("(not (= %s 0))", b.T), fr.curReach, "integer division by zero", x.Pos(), []string{"C19"})
			}
			t = fmt.Sprintf("(godiv %s %s)", a.T, b.T)
			ex.needDiv()
		}
	case token.REM:
		if ex.sweepSafe {
			ex.oblige("safe", "div-zero", fmt.Sprintf("(not (= %s 0))", b.T), fr.curReach, "integer modulo by zero", x.Pos(), []string{"C19"})
		}
		t = fmt.Sprintf("(gomod %s %s)", a.T, b.T)
		ex.needDiv()
	case token.EQL, token.NEQ:
		t = ex.eqTerm(a, b, xt)
		if x.Op == token.NEQ {
			t = not(t)
		}
	case token.LSS, token.LEQ, token.GTR, token.GEQ:
		op := map[token.Token]string{token.LSS: "<", token.LEQ: "<=", token.GTR: ">", token.GEQ: ">="}[x.Op]
		if isStr {
			ex.needStrLt()
			switch x.Op {
			case token.LSS:
				t = fmt.Sprintf("(strlt %s %s)", a.T, b.T)
			case token.GTR:
				t = fmt.Sprintf("(strlt %s %s)", b.T, a.T)
			case token.LEQ:
				t = fmt.Sprintf("(not (strlt %s %s))", b.T, a.T)
			default:
				t = fmt.Sprintf("(not (strlt %s %s))", a.T, b.T)
			}
		} else {
			t = fmt.Sprintf("(%s %s %s)", op, a.T, b.T)
		}
	case token.AND, token.OR, token.XOR, token.SHL, token.SHR, token.AND_NOT:
		if a.S == SBool {
			switch x.Op {
			case token.AND:
				t = and(a.T, b.T)
			case token.OR:
				t = or(a.T, b.T)
			default:
				t = fmt.Sprintf("(xor %s %s)", a.T, b.T)
			}
		} else {
			fn := "bitop_" + sanitize(x.Op.String())
			ex.declFun(fn, "(Int Int) Int")
			t = fmt.Sprintf("(%s %s %s)", fn, a.T, b.T)
		}
	default:
		panic(engineErr("binop " + x.Op.String()))
	}
	fr.set(x, t)
}

func (ex *Exec) declFun(name, sig string) {
	if ex.declaredFun[name] {
		return
	}
	ex.declaredFun[name] = true
	ex.D.add("(declare-fun %s %s)", name, sig)
}

func (ex *Exec) needDiv() {
	if ex.declaredFun["godiv"] {
		return
	}
	ex.declaredFun["godiv"] = true
	// Go division truncates toward zero
	ex.D.add("(define-fun godiv ((a Int) (b Int)) Int (ite (>= a 0) (ite (> b 0) (div a b) (- (div a (- b)))) (ite (> b 0) (- (div (- a) b)) (div (- a) (- b)))))")
	ex.D.add("(define-fun gomod ((a Int) (b Int)) Int (- a (* b (godiv a b))))")
}

func (ex *Exec) needStrLt() {
	if ex.declaredFun["strlt"] {
		return
	}
	ex.declaredFun["strlt"] = true
	ex.D.add("(declare-fun strlt (Str Str) Bool)")
	ex.D.add("(assert (forall ((a Str)) (! (not (strlt a a)) :pattern ((strlt a a)))))")
	ex.D.add("(assert (forall ((a Str) (b Str)) (! (or (strlt a b) (strlt b a) (= a b)) :pattern ((strlt a b)))))")
	ex.D.add("(assert (forall ((a Str) (b Str)) (! (not (and (strlt a b) (strlt b a))) :pattern ((strlt a b)))))")
	ex.D.add("(assert (forall ((a Str) (b Str) (c Str)) (! (=> (and (strlt a b) (strlt b c)) (strlt a c)) :pattern ((strlt a b) (strlt b c)))))")
}

func (ex *Exec) eqTerm(a, b Val, t types.Type) string {
	switch t.(type) {
	case *types.Slice:
		// only comparison with nil is legal
		if b.T == "(mkS 0 0 0 0)" {
			return fmt.Sprintf("(= (sarr %s) 0)", a.T)
		}
		if a.T == "(mkS 0 0 0 0)" {
			return fmt.Sprintf("(= (sarr %s) 0)", b.T)
		}
	}
	return fmt.Sprintf("(= %s %s)", a.T, b.T)
}

func (fr *Frame) unop(x *ssa.UnOp) {
	ex := fr.ex
	a := fr.val(x.X)
	switch x.Op {
	case token.NOT:
		fr.set(x, not(a.T))
	case token.SUB:
		fr.set(x, fmt.Sprintf("(- %s)", a.T))
	case token.XOR:
		ex.declFun("bitnot", "(Int) Int")
		fr.set(x, fmt.Sprintf("(bitnot %s)", a.T))
	case token.MUL:
		if fa, ok := x.X.(*ssa.FieldAddr); ok {
			if mu, ok := fr.guardedField(fa); ok {
				ex.oblige("lock", "read-"+fa.X.Type().Underlying().(*types.Pointer).Elem().Underlying().(*types.Struct).Field(fa.Field).Name(),
					fmt.Sprintf("(>= %s 1)", fr.heldTerm(mu)), fr.curReach, "guarded field accessed while holding its lock", x.Pos(), []string{"C12", "C20"})
			}
		}
		fr.nilCheck(a, x.X, x.Pos(), "load")
		et := x.X.Type().Underlying().(*types.Pointer).Elem()
		m := fr.curMem
		if g := rootGlobal(x.X); g != nil && ex.S.ConstGlobals[g.Pkg.Pkg.Path()+"."+g.Name()] && ex.frozen != nil {
			m = ex.frozen // never-reassigned package-level variable: read its initial value
		}
		if iv, ok := ex.immCells[a.T]; ok {
			// write-once cell: its content cannot be changed by anything (no other store exists in the program)
			fr.vals[x] = Val{T: iv.T, S: iv.S, G: x.Type()}
		} else {
			fr.set(x, ex.load(m, et, a.T))
		}
		if v, ok := fr.vals[x]; ok {
			ex.typeAssume(v, x.Type(), fr.curReach, false)
		}
	case token.ARROW:
		fr.recv(x)
	default:
		panic(engineErr("unop " + x.Op.String()))
	}
}

func (fr *Frame) zeroFill(et types.Type, arr string) {
	ex := fr.ex
	leaves := map[string]bool{}
	ex.leafArraysOf(et, leaves, map[string]bool{})
	if _, isStruct := et.Underlying().(*types.Struct); isStruct {
		return // element-wise zero of structs not stated (unknown contents: sound over-approximation)
	}
	for l := range leaves {
		cur := ex.memGet(fr.curMem, l)
		nv := ex.memHavoc(fr.curMem, l)
		z := ex.D.zero(et)
		ex.emit("(assert (forall ((a Int)) (! (= (select %s a) (ite (and (= a (ea (ea_arr a) (ea_idx a))) (= (ea_arr a) %s)) %s (select %s a))) :pattern ((select %s a)))))", nv, arr, z, cur, nv)
	}
}

func (fr *Frame) indexAddr(x *ssa.IndexAddr) {
	ex := fr.ex
	idx := fr.val(x.Index).T
	switch t := x.X.Type().Underlying().(type) {
	case *types.Slice:
		s := fr.val(x.X)
		if ex.sweepSafe {
			ex.oblige("safe", "index", fmt.Sprintf("(and (>= %s 0) (< %s (slen %s)))", idx, idx, s.T), fr.curReach, "index out of range", x.Pos(), []string{"C19"})
		}
		fr.set(x, fmt.Sprintf("(elemaddr %s %s)", s.T, idx))
	case *types.Pointer: // *array
		p := fr.val(x.X)
		at := t.Elem().Underlying().(*types.Array)
		if ex.sweepSafe {
			ex.oblige("safe", "index", fmt.Sprintf("(and (>= %s 0) (< %s %d))", idx, idx, at.Len()), fr.curReach, "array index out of range", x.Pos(), []string{"C19"})
		}
		fr.set(x, fmt.Sprintf("(ea %s %s)", p.T, idx))
	default:
		panic(engineErr("IndexAddr on " + x.X.Type().String()))
	}
}

func (fr *Frame) index(x *ssa.Index) {
	ex := fr.ex
	idx := fr.val(x.Index).T
	switch x.X.Type().Underlying().(type) {
	case *types.Basic: // string
		s := fr.val(x.X)
		if ex.sweepSafe {
			ex.oblige("safe", "index", fmt.Sprintf("(and (>= %s 0) (< %s (strlen %s)))", idx, idx, s.T), fr.curReach, "string index out of range", x.Pos(), []string{"C19"})
		}
		ex.declFun("strat", "(Str Int) Int")
		fr.set(x, fmt.Sprintf("(strat %s %s)", s.T, idx))
	case *types.Array:
		fr.set(x, fmt.Sprintf("(select %s %s)", fr.val(x.X).T, idx))
	default:
		panic(engineErr("Index on " + x.X.Type().String()))
	}
}

func (fr *Frame) slice(x *ssa.Slice) {
	ex := fr.ex
	get := func(v ssa.Value, def string) string {
		if v == nil {
			return def
		}
		return fr.val(v).T
	}
	switch t := x.X.Type().Underlying().(type) {
	case *types.Slice:
		s := fr.val(x.X).T
		lo := get(x.Low, "0")
		hi := get(x.High, fmt.Sprintf("(slen %s)", s))
		mx := get(x.Max, fmt.Sprintf("(scap %s)", s))
		if ex.sweepSafe {
			ex.oblige("safe", "slice-bounds", fmt.Sprintf("(and (<= 0 %s) (<= %s %s) (<= %s %s) (<= %s (scap %s)))", lo, lo, hi, hi, mx, mx, s), fr.curReach, "slice bounds out of range", x.Pos(), []string{"C19"})
		}
		fr.set(x, fmt.Sprintf("(mkS (sarr %s) (+ (soff %s) %s) (- %s %s) (- %s %s))", s, s, lo, hi, lo, mx, lo))
	case *types.Pointer:
		at := t.Elem().Underlying().(*types.Array)
		p := fr.val(x.X).T
		lo := get(x.Low, "0")
		hi := get(x.High, fmt.Sprintf("%d", at.Len()))
		fr.set(x, fmt.Sprintf("(mkS %s %s (- %s %s) (- %d %s))", p, lo, hi, lo, at.Len(), lo))
	case *types.Basic:
		s := fr.val(x.X).T
		lo := get(x.Low, "0")
		hi := get(x.High, fmt.Sprintf("(strlen %s)", s))
		if ex.sweepSafe {
			ex.oblige("safe", "slice-bounds", fmt.Sprintf("(and (<= 0 %s) (<= %s %s) (<= %s (strlen %s)))", lo, lo, hi, hi, s), fr.curReach, "string slice bounds out of range", x.Pos(), []string{"C19"})
		}
		ex.declFun("substr", "(Str Int Int) Str")
		ex.D.declOnce("substr_ax", "(assert (forall ((s Str) (a Int) (b Int)) (! (=> (and (<= 0 a) (<= a b) (<= b (strlen s))) (= (strlen (substr s a b)) (- b a))) :pattern ((substr s a b)))))")
		ex.D.declOnce("substr_ax2", "(assert (forall ((s Str)) (! (= (substr s 0 (strlen s)) s) :pattern ((substr s 0 (strlen s))))))")
		fr.set(x, fmt.Sprintf("(substr %s %s %s)", s, lo, hi))
	default:
		panic(engineErr("Slice on " + x.X.Type().String()))
	}
}

func (fr *Frame) lookup(x *ssa.Lookup) {
	ex := fr.ex
	switch t := x.X.Type().Underlying().(type) {
	case *types.Map:
		m := fr.val(x.X).T
		k := fr.val(x.Index).T
		has := ex.mapHas(fr.curMem, t, m, k)
		if ex.sweepSafe {
			// a nil map has no keys (stated for the safety sweep only, where "found in the map, so the map is not nil"
			// guards a later write; in the contract checks the extra disjunction slows one lock invariant from 0.1 s to 20 s)
			ex.assume(implies(fmt.Sprintf("(= %s 0)", m), not(has)), fr.curReach)
		}
		v := ite(has, ex.mapVal(fr.curMem, t, m, k), ex.D.zero(t.Elem()))
		vs := ex.D.sortOf(t.Elem())
		if x.CommaOk {
			fr.tuples[x] = []Val{{T: ex.define(x.Name()+"_v", vs, v), S: vs, G: t.Elem()}, {T: ex.define(x.Name()+"_ok", SBool, has), S: SBool, G: types.Typ[types.Bool]}}
		} else {
			fr.set(x, v)
		}
		if !x.CommaOk {
			ex.typeAssume(fr.vals[x], t.Elem(), fr.curReach, false)
		} else {
			ex.typeAssume(fr.tuples[x][0], t.Elem(), fr.curReach, false)
		}
	case *types.Basic:
		ex.declFun("strat", "(Str Int) Int")
		fr.set(x, fmt.Sprintf("(strat %s %s)", fr.val(x.X).T, fr.val(x.Index).T))
	default:
		panic(engineErr("Lookup on " + x.X.Type().String()))
	}
}

func (fr *Frame) convert(x *ssa.Convert) {
	ex := fr.ex
	v := fr.val(x.X)
	from, to := ex.D.sortOf(x.X.Type()), ex.D.sortOf(x.Type())
	switch {
	case from == to:
		fr.vals[x] = Val{T: v.T, S: to, G: x.Type()}
		if to == SInt {
			// narrowing conversions wrap: model as arbitrary value in range unless provably in range
			if bt, ok := x.Type().Underlying().(*types.Basic); ok {
				if ft, ok2 := x.X.Type().Underlying().(*types.Basic); ok2 && bt.Info()&types.IsInteger != 0 && ft.Info()&types.IsInteger != 0 {
					lo, hi := intRange(bt.Kind())
					flo, fhi := intRange(ft.Kind())
					if lo != "" && !(rangeWithin(flo, fhi, lo, hi)) {
						r := ex.fresh("conv", SInt)
						ex.emit("(assert (and (>= %s %s) (<= %s %s)))", r, lo, r, hi)
						ex.emit("(assert (=> (and (>= %s %s) (<= %s %s)) (= %s %s)))", v.T, lo, v.T, hi, r, v.T)
						fr.vals[x] = Val{T: r, S: SInt, G: x.Type()}
					}
				}
			}
		}
	case from == SStr && to == SSlice, from == SSlice && to == SStr, from == SInt && to == SStr, from == SReal || to == SReal:
		fn := fmt.Sprintf("conv_%s_%s", sortID(from), sortID(to))
		ex.declFun(fn, fmt.Sprintf("(%s) %s", from, to))
		fr.set(x, fmt.Sprintf("(%s %s)", fn, v.T))
		if to == SSlice {
			ex.typeAssume(fr.vals[x], x.Type(), fr.curReach, false)
			ex.assume(fmt.Sprintf("(= (slen %s) (strlen %s))", fr.vals[x].T, v.T), fr.curReach)
		}
		if from == SSlice && to == SStr {
			ex.assume(fmt.Sprintf("(= (strlen %s) (slen %s))", fr.vals[x].T, v.T), fr.curReach)
		}
	default:
		r := ex.fresh("conv", to)
		fr.vals[x] = Val{T: r, S: to, G: x.Type()}
	}
}

var rangeOrder = map[string]int{"(- 9223372036854775808)": -64, "(- 2147483648)": -32, "(- 32768)": -16, "(- 128)": -8, "0": 0,
	"127": 7, "255": 8, "32767": 15, "65535": 16, "2147483647": 31, "4294967295": 32, "9223372036854775807": 63, "18446744073709551615": 64}

func rangeWithin(flo, fhi, lo, hi string) bool {
	if flo == "" {
		return false
	}
	return rangeOrder[flo] >= rangeOrder[lo] && rangeOrder[fhi] <= rangeOrder[hi]
}

func (fr *Frame) typeAssert(x *ssa.TypeAssert) {
	ex := fr.ex
	v := fr.val(x.X)
	var ok, val string
	if _, isI := x.AssertedType.Underlying().(*types.Interface); isI {
		pred := ex.D.implementsPred(x.AssertedType)
		ok = fmt.Sprintf("(%s (itag %s))", pred, v.T)
		val = v.T
	} else {
		tag := ex.D.tagOf(x.AssertedType)
		ok = fmt.Sprintf("(= (itag %s) %d)", v.T, tag)
		if isPointerLike(x.AssertedType) {
			val = fmt.Sprintf("(ival %s)", v.T)
		} else {
			val = ex.D.unbox(ex.D.sortOf(x.AssertedType), fmt.Sprintf("(ival %s)", v.T))
		}
	}
	s := ex.D.sortOf(x.AssertedType)
	if x.CommaOk {
		okv := ex.define(x.Name()+"_ok", SBool, ok)
		vv := ex.define(x.Name()+"_v", s, ite(okv, val, ex.D.zero(x.AssertedType)))
		fr.tuples[x] = []Val{{T: vv, S: s, G: x.AssertedType}, {T: okv, S: SBool, G: types.Typ[types.Bool]}}
		ex.typeAssume(fr.tuples[x][0], x.AssertedType, fr.curReach, false)
		return
	}
	if ex.sweepSafe {
		ex.oblige("safe", "type-assert", ok, fr.curReach, fmt.Sprintf("unchecked type assertion %s.(%s)", x.X.Name(), types.TypeString(x.AssertedType, shortQual)), x.Pos(), []string{"C19"})
	}
	ex.assume(ok, fr.curReach)
	fr.set(x, val)
	ex.typeAssume(fr.vals[x], x.AssertedType, fr.curReach, false)
}

func shortQual(p *types.Package) string { return p.Name() }

func (fr *Frame) panicOb(x *ssa.Panic) {
	ex := fr.ex
	// allowed panics: contract "panics when"
	allowed := "false"
	if fr.isTop && fr.contract != nil {
		for _, c := range fr.contract.Panics {
			ec := fr.evalCtx(fr.curMem, fr.entryMem)
			v := ec.evalBool(c.E)
			allowed = or(allowed, v)
		}
	}
	ex.oblige("safe", "panic", allowed, fr.curReach, "explicit panic reachable", x.Pos(), []string{"C19"})
}

func rootGlobal(v ssa.Value) *ssa.Global {
	for {
		switch x := v.(type) {
		case *ssa.Global:
			return x
		case *ssa.FieldAddr:
			v = x.X
		case *ssa.IndexAddr:
			v = x.X
		default:
			return nil
		}
	}
}

// allocGetsObjectField: the allocation is a composite literal that sets field 0 (Object) explicitly.
func allocGetsObjectField(a *ssa.Alloc) bool {
	if a.Referrers() == nil {
		return false
	}
	for _, r := range *a.Referrers() {
		if st, ok := r.(*ssa.Store); ok && st.Addr == a {
			return true // the whole struct (a by-value copy of another object) is stored into it
		}
		if fa, ok := r.(*ssa.FieldAddr); ok && fa.Field == 0 && fa.Referrers() != nil {
			for _, r2 := range *fa.Referrers() {
				if st, ok := r2.(*ssa.Store); ok && st.Addr == fa {
					return true
				}
			}
		}
	}
	return false
}

// returnSiteClauses checks "at return#N assert E" clauses (N = ordinal of the return statement in source order;
// "at return assert E" applies to every return).
func (fr *Frame) returnSiteClauses(x *ssa.Return, rs []Val) {
	ex := fr.ex
	if !fr.isTop || ex.topContract == nil {
		return
	}
	var rets []*ssa.Return
	for _, b := range fr.fn.Blocks {
		if b == fr.fn.Recover {
			continue
		}
		for _, in := range b.Instrs {
			if r, ok := in.(*ssa.Return); ok {
				rets = append(rets, r)
			}
		}
	}
	sort.SliceStable(rets, func(i, j int) bool { return rets[i].Pos() < rets[j].Pos() })
	ord := 0
	for i, r := range rets {
		if r == x {
			ord = i + 1
		}
	}
	for i, s := range ex.topContract.Sites {
		if s.Callee != "return" || (s.Ord != 0 && s.Ord != ord) {
			continue
		}
		ex.markSite(i)
		ec := fr.evalCtx(fr.curMem, ex.topEntry)
		names := map[string]Val{}
		bindResultNames(names, fr.fn.Signature, rs)
		ec.names = names
		ec.goal = true
		g, err := ec.tryBool(s.Cl.E)
		if err != nil {
			ex.failOb("contract-typechecks", fmt.Sprintf("return#%d", ord), err.Error()+" in "+s.Cl.Src, x.Pos())
			continue
		}
		ex.oblige("assert", fmt.Sprintf("return#%d.%d", ord, i+1), g, fr.curReach, "assertion at return: "+s.Cl.Src, x.Pos(), s.Cl.Prop)
		ex.assume(g, fr.curReach)
	}
}

// orderFreeCheck: inside a map-range loop declared "orderfree", writing the very map being ranged over makes the
// result depend on Go's randomised iteration order (entries inserted during the loop may or may not be visited,
// and later iterations observe earlier writes): obligation "the written map is not the ranged map".
func (fr *Frame) orderFreeCheck(in ssa.Instruction, mapTerm string) {
	ex := fr.ex
	for _, li := range fr.loops {
		if !li.body[in.Block()] || li.spec == nil || !li.spec.IsOrderFree {
			continue
		}
		for b := range li.body {
			for _, i2 := range b.Instrs {
				if nx, ok := i2.(*ssa.Next); ok {
					if it := fr.iters[nx.Iter]; it != nil && it.isMap {
						ex.oblige("orderfree", fmt.Sprintf("loop%d-writes-ranged-map", li.ord), fmt.Sprintf("(not (= %s %s))", mapTerm, it.mref), fr.curReach,
							"a loop over a map whose result must not depend on iteration order does not write the map it ranges over", in.Pos(), []string{"C13"})
					}
				}
			}
		}
	}
}

// writeOnceCell: al is a local variable cell whose only store in the whole program is st, placed in the entry block
// of its function; every other use is a load, a debug reference or a capture by a closure that only loads it.
func writeOnceCell(al *ssa.Alloc, st *ssa.Store) bool {
	if al.Heap == false && len(*al.Referrers()) == 0 {
		return false
	}
	if st.Block() == nil || st.Block().Index != 0 {
		return false
	}
	return onlyLoaded(al, st, 0)
}

func onlyLoaded(v ssa.Value, st *ssa.Store, depth int) bool {
	if depth > 3 || v.Referrers() == nil {
		return false
	}
	for _, r := range *v.Referrers() {
		switch x := r.(type) {
		case *ssa.Store:
			if x != st || x.Addr != v {
				return false
			}
		case *ssa.UnOp:
			if x.Op != token.MUL {
				return false
			}
		case *ssa.DebugRef:
		case *ssa.MakeClosure:
			fn, ok := x.Fn.(*ssa.Function)
			if !ok {
				return false
			}
			for i, b := range x.Bindings {
				if b == v {
					if i >= len(fn.FreeVars) || !onlyLoaded(fn.FreeVars[i], nil, depth+1) {
						return false
					}
				}
			}
		default:
			return false
		}
	}
	return true
}

// localCell: one leaf location of a local variable whose address is only ever used to load from or store to it.
// Nothing outside the function can reach such a location, so calls and loop-head havocs leave it alone.
type localCell struct {
	arr, addr string
	alloc     *ssa.Alloc
}

func nonEscaping(v ssa.Value, depth int) bool {
	if depth > 4 || v.Referrers() == nil {
		return false
	}
	for _, r := range *v.Referrers() {
		switch x := r.(type) {
		case *ssa.Store:
			if x.Addr != v || x.Val == v {
				return false
			}
		case *ssa.UnOp:
			if x.Op != token.MUL {
				return false
			}
		case *ssa.DebugRef:
		case *ssa.FieldAddr:
			if x.X != v || !nonEscaping(x, depth+1) {
				return false
			}
		default:
			return false
		}
	}
	return true
}

// preserveCells: after something changed whole memory arrays (a call, a loop-head havoc), non-escaping local cells of
// this frame and of the frames it is inlined into still hold what they held in before. skip names allocs to leave out.
func (fr *Frame) preserveCells(before *MemState, skip map[*ssa.Alloc]bool) {
	ex := fr.ex
	for f := fr; f != nil; f = f.parentFrame {
		for _, c := range f.cells {
			if f == fr && skip[c.alloc] {
				continue
			}
			if _, ok := before.arrays[c.arr]; !ok {
				if _, ok2 := fr.curMem.arrays[c.arr]; !ok2 {
					continue
				}
			}
			a, b := ex.memGet(before, c.arr), ex.memGet(fr.curMem, c.arr)
			if a == b {
				continue
			}
			ex.assume(fmt.Sprintf("(= (select %s %s) (select %s %s))", b, c.addr, a, c.addr), fr.curReach)
		}
	}
}

func rootAlloc(v ssa.Value) *ssa.Alloc {
	for {
		switch x := v.(type) {
		case *ssa.Alloc:
			return x
		case *ssa.FieldAddr:
			v = x.X
		case *ssa.IndexAddr:
			v = x.X
		default:
			return nil
		}
	}
}

func (fr *Frame) loopExitClauses(li *loopInfo, b, succ *ssa.BasicBlock) {
	ex := fr.ex
	for i, s := range ex.topContract.Sites {
		if s.Kind != "assert" || !clauseApplies(s.Cl, ex.Prop) {
			continue
		}
		if strings.HasPrefix(s.Callee, "loopexit@") {
			// "at loopexit@callee assert e": the loop an anchored loop spec of that name is attached to (also inside a helper)
			hit := false
			for _, a := range li.anchors {
				if a == strings.TrimPrefix(s.Callee, "loopexit@") {
					hit = true
				}
			}
			if !hit {
				continue
			}
		} else if s.Callee != "loopexit" || s.Ord != li.ord || !fr.isTop {
			continue
		}
		ex.markSite(i)
		reach := fr.edgeCond(b, succ)
		ec := fr.evalCtx(fr.memOut[b], ex.topEntry)
		ec.loop = li
		ec.goal = true
		g, err := ec.tryBool(s.Cl.E)
		pos := b.Instrs[0].Pos()
		if err != nil {
			ex.failOb("contract-typechecks", fmt.Sprintf("loopexit#%d", li.ord), err.Error()+" in "+s.Cl.Src, pos)
			continue
		}
		ex.oblige("assert", fmt.Sprintf("loopexit#%d.%d", li.ord, i+1), g, reach, "assertion when loop "+fmt.Sprint(li.ord)+" has run to completion: "+s.Cl.Src, pos, s.Cl.Prop)
		ex.assume(g, reach)
	}
}

// guardedRootLoad: the load of a struct field from which the map value v was derived by lookups (nil if none).
func guardedRootLoad(v ssa.Value, depth int) ssa.Instruction {
	if depth > 4 {
		return nil
	}
	switch x := v.(type) {
	case *ssa.UnOp:
		if _, ok := x.X.(*ssa.FieldAddr); ok && x.Op == token.MUL {
			return x
		}
	case *ssa.Lookup:
		return guardedRootLoad(x.X, depth+1)
	case *ssa.Extract:
		if t, ok := x.Tuple.(*ssa.Lookup); ok {
			return guardedRootLoad(t.X, depth+1)
		}
	case *ssa.Phi:
		for _, e := range x.Edges {
			if r := guardedRootLoad(e, depth+1); r != nil {
				return r
			}
		}
	}
	return nil
}

// instrDominates: a is executed before b on every path that reaches b.
func instrDominates(a, b ssa.Instruction) bool {
	ba, bb := a.Block(), b.Block()
	if ba == nil || bb == nil {
		return false
	}
	if ba != bb {
		return ba.Dominates(bb)
	}
	for _, in := range ba.Instrs {
		if in == a {
			return true
		}
		if in == b {
			return false
		}
	}
	return false
}
