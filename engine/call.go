package main

import (
	"fmt"
	"os"
	"go/constant"
	"go/token"
	"go/types"
	"sort"
	"strings"

	"golang.org/x/tools/go/ssa"
)

// calleeInfo describes a call target for spec lookup and display.
type calleeInfo struct {
	display string           // name used for site matching and reports
	keys    []string         // contract lookup keys in priority order
	fn      *ssa.Function    // static callee (may be nil)
	sig     *types.Signature // callee signature (without receiver param for invoke)
	recv    *Val             // receiver value for invoke / methods
	invoke  bool
}

func (fr *Frame) calleeOf(c *ssa.CallCommon) calleeInfo {
	if c.IsInvoke() {
		rt := c.Value.Type()
		tn := types.TypeString(rt, nil)
		sig := c.Method.Type().(*types.Signature)
		ci := calleeInfo{display: tn + "." + c.Method.Name(), sig: sig, invoke: true}
		ci.keys = append(ci.keys, tn+"."+c.Method.Name())
		// embedded interfaces: also try the interface that declares the method
		if named, ok := rt.(*types.Named); ok {
			_ = named
		}
		if c.Method.Pkg() != nil {
			// declaring interface is unknown from the method object; add generic key "<pkg>.<Method>"
			ci.keys = append(ci.keys, "method "+c.Method.Pkg().Path()+"."+c.Method.Name())
		}
		ci.keys = append(ci.keys, "method "+c.Method.Name())
		return ci
	}
	if fn := c.StaticCallee(); fn != nil {
		name := canonNameAny(fn)
		if fn.Origin() != nil {
			name = canonNameAny(fn.Origin())
		}
		ci := calleeInfo{display: name, fn: fn, sig: fn.Signature, keys: []string{name}}
		// bound method closures / thunks: map to the underlying method
		if fn.Synthetic != "" && strings.HasSuffix(fn.Name(), "$bound") {
			if obj, ok := fn.Object().(*types.Func); ok && obj != nil {
				_ = obj
			}
		}
		return ci
	}
	// call of a function value stored in a struct field: addressed by "field <pkg>.<Type>.<field>"
	if u, ok := c.Value.(*ssa.UnOp); ok && u.Op == token.MUL {
		if fa, ok := u.X.(*ssa.FieldAddr); ok {
			st := fa.X.Type().Underlying().(*types.Pointer).Elem()
			if s, ok := st.Underlying().(*types.Struct); ok {
				name := "field " + types.TypeString(st, nil) + "." + s.Field(fa.Field).Name()
				return calleeInfo{display: name, keys: []string{name}, sig: c.Signature()}
			}
		}
	}
	return calleeInfo{display: "dynamic:" + c.Value.Name(), sig: c.Signature()}
}

// findContract returns the contract for a callee, if any.
func (ex *Exec) findContract(ci calleeInfo) *Contract {
	for _, k := range ci.keys {
		if c, ok := ex.S.Contracts[k]; ok {
			return c
		}
		if c, ok := ex.S.Contracts[shortName(k)]; ok {
			return c
		}
	}
	return nil
}

// callAssigns gives a conservative set of arrays a call may modify (for loop frames).
func (fr *Frame) callAssigns(c *ssa.CallCommon) (map[string]bool, bool) {
	ex := fr.ex
	out := map[string]bool{}
	if b, ok := c.Value.(*ssa.Builtin); ok {
		switch b.Name() {
		case "append":
			if st, ok := c.Args[0].Type().Underlying().(*types.Slice); ok {
				ex.leafArraysOf(st.Elem(), out, map[string]bool{})
			}
		case "delete":
			mt := c.Args[0].Type().Underlying().(*types.Map)
			has, _, _, _ := ex.mapArrays(mt)
			out[has], out["ML"] = true, true
		case "copy":
			if st, ok := c.Args[0].Type().Underlying().(*types.Slice); ok {
				ex.leafArraysOf(st.Elem(), out, map[string]bool{})
			}
		}
		return out, false
	}
	ci := fr.calleeOf(c)
	if h := specialHandler(ci.display); h != nil {
		return h.assigns(fr, c, out)
	}
	ct := ex.findContract(ci)
	if ct != nil && ct.Inline && ci.fn != nil && len(ci.fn.Blocks) > 0 {
		ct = nil
		return fr.bodyAssigns(ci.fn, out, 0)
	}
	if ct == nil {
		if ci.fn != nil && inRepo(funcPkgPath(ci.fn)) && len(ci.fn.Blocks) > 0 {
			// will be inlined: scan its body
			return fr.bodyAssigns(ci.fn, out, 0)
		}
		isLib := !strings.HasPrefix(ci.display, "package-operator.run/") && !strings.HasPrefix(ci.display, "(package-operator.run/") &&
			!strings.HasPrefix(ci.display, "field package-operator.run/") && !strings.HasPrefix(ci.display, "dynamic:")
		if c.IsInvoke() && (accessorIface(ci.display) || isAdapterIface(c.Value.Type())) {
			m := ci.display[strings.LastIndex(ci.display, ".")+1:]
			if !accessorMutator(m) {
				return out, false
			}
			if accessorMutator(m) {
				for _, mn := range sortedKeys(ex.S.Models) {
					if md := ex.S.Models[mn]; len(md.Params) > 0 && md.Params[0].Obj && md.Params[0].Name == "o" && !md.Ghost {
						an, _ := ex.modelArray(mn)
						out[an] = true
					}
				}
				return out, false
			}
		}
		if isLib {
			out["*lib"] = true // everything except pure ghost state
			return out, false
		}
		return out, true
	}
	if ct.Readonly {
		return out, false
	}
	if !ct.HasAssigns {
		return out, true
	}
	for _, a := range ct.Assigns {
		switch {
		case a.All:
			return out, true
		case a.Mem:
			out["*mem"] = true
		case a.Model == "allrows":
			for _, mn := range sortedKeys(ex.S.Models) {
				md := ex.S.Models[mn]
				if len(md.Params) > 0 && md.Params[0].Obj && md.Params[0].Name == "o" {
					an, _ := ex.modelArray(mn)
					out[an] = true
				}
			}
		case a.Model != "":
			an, md := ex.modelArray(a.Model)
			if md == nil {
				return out, true
			}
			out[an] = true
		case a.Deref != nil:
			// a Go memory location: over-approximate by all scalar memory classes known so far
			for k := range ex.arrSorts {
				if strings.HasPrefix(k, "M_") {
					out[k] = true
				}
			}
			out["M_Ref"] = true
			ex.arraySort("M_Ref", "(Array Int Int)")
		}
	}
	return out, false
}

// bindParams builds the name environment of a spec for an actual call.
func (fr *Frame) bindParams(ci calleeInfo, ct *Contract, args []Val) map[string]Val {
	names := map[string]Val{}
	sig := ci.sig
	i := 0
	if ci.recv != nil {
		names["recv"] = *ci.recv
	} else if sig != nil && sig.Recv() != nil && len(args) > 0 {
		names["recv"] = args[0]
		if n := sig.Recv().Name(); n != "" && n != "_" {
			names[n] = args[0]
		}
		i = 1
	}
	if sig != nil {
		ps := sig.Params()
		for j := 0; j < ps.Len() && i+j < len(args); j++ {
			v := args[i+j]
			if v.G == nil {
				v.G = ps.At(j).Type()
			}
			if n := ps.At(j).Name(); n != "" && n != "_" {
				names[n] = v
			}
			names[fmt.Sprintf("$%d", j)] = v
			if ct != nil && j < len(ct.ParamNames) && ct.ParamNames[j] != "_" {
				names[ct.ParamNames[j]] = v
			}
		}
	}
	return names
}

func resultNames(sig *types.Signature) []string {
	var out []string
	rs := sig.Results()
	for j := 0; j < rs.Len(); j++ {
		n := rs.At(j).Name()
		if n == "" || n == "_" {
			if rs.Len() == 1 {
				n = "result"
			} else {
				n = fmt.Sprintf("result%d", j)
			}
		}
		out = append(out, n)
	}
	return out
}

func bindResultNames(names map[string]Val, sig *types.Signature, res []Val) {
	rn := resultNames(sig)
	for j, n := range rn {
		if j < len(res) {
			names[n] = res[j]
			names[fmt.Sprintf("result%d", j)] = res[j]
		}
	}
	if len(res) == 1 {
		names["result"] = res[0]
	}
	// "err" alias for a trailing unnamed error result
	if sig.Results().Len() > 0 {
		last := sig.Results().At(sig.Results().Len() - 1)
		paramErr := false
		for i := 0; i < sig.Params().Len(); i++ {
			if sig.Params().At(i).Name() == "err" {
				paramErr = true // a parameter called err keeps its name; the result is "result"
			}
		}
		if _, has := names["err"]; !has && !paramErr && isErrorType(last.Type()) {
			names["err"] = res[len(res)-1]
		}
	}
}

func isErrorType(t types.Type) bool {
	n, ok := t.(*types.Named)
	return ok && n.Obj().Pkg() == nil && n.Obj().Name() == "error"
}

// call executes a call instruction and returns its results; local cells whose address never escapes keep their value.
func (fr *Frame) call(in ssa.Instruction, c *ssa.CallCommon) []Val {
	hasCells := false
	for f := fr; f != nil; f = f.parentFrame {
		if len(f.cells) > 0 {
			hasCells = true
		}
	}
	if !hasCells {
		return fr.call0(in, c)
	}
	before := fr.curMem.clone()
	res := fr.call0(in, c)
	fr.preserveCells(before, nil)
	return res
}

func (fr *Frame) call0(in ssa.Instruction, c *ssa.CallCommon) []Val {
	ex := fr.ex
	pos := in.Pos()
	if b, ok := c.Value.(*ssa.Builtin); ok {
		if b.Name() == "append" {
			// "at append#n ghost|assert": the built-in append is a site (arg0 the slice, arg1 the appended slice)
			var bargs []Val
			for _, a := range c.Args {
				bargs = append(bargs, fr.val(a))
			}
			fr.siteClauses(in, c, "append", &calleeInfo{display: "append"}, bargs, nil, false)
		}
		return fr.builtin(in, b, c)
	}
	ci := fr.calleeOf(c)
	var args []Val
	if ci.invoke {
		rv := fr.val(c.Value)
		ci.recv = &rv
	}
	if ci.invoke {
		for _, a := range c.Args {
			args = append(args, fr.val(a))
		}
	} else {
		for _, a := range c.Args {
			args = append(args, fr.val(a))
		}
	}
	// closure call with statically known MakeClosure
	if ci.fn == nil && !ci.invoke {
		if mc, ok := c.Value.(*ssa.MakeClosure); ok {
			return fr.inlineClosure(in, mc, args)
		}
	}
	if fn := c.StaticCallee(); fn != nil {
		if mc, ok := c.Value.(*ssa.MakeClosure); ok {
			return fr.inlineClosure(in, mc, args)
		}
	}
	// dynamic call of a function value created by a known MakeClosure (possibly in an inlining caller)
	if ci.fn == nil && !ci.invoke {
		if rec, ok := ex.closureByTerm[fr.val(c.Value).T]; ok {
			if res, ok := fr.tryInline(in, rec.fn, args, rec.binds); ok {
				return res
			}
		}
	}
	// site clauses (sink preconditions / asserts) are checked before the call
	fr.siteClauses(in, c, ci.display, &ci, args, nil, false)
	res := fr.call1(in, c, ci, args, pos)
	// "after callee#n ghost|assert": evaluated in the state after the call, with result / result0.. bound
	fr.siteClauses(in, c, ci.display, &ci, args, res, true)
	return res
}

func (fr *Frame) call1(in ssa.Instruction, c *ssa.CallCommon, ci calleeInfo, args []Val, pos token.Pos) []Val {
	ex := fr.ex
	if h := specialHandler(ci.display); h != nil {
		return h.run(fr, in, c, ci, args)
	}
	if lis, self, isUnlock, ok := fr.lockCall(ci.display, c); ok {
		if isUnlock {
			for _, li := range lis {
				fr.lockInvOblige(in, li, self)
			}
		} else {
			for i := len(lis) - 1; i >= 0; i-- {
				defer fr.lockInvAssume(lis[i], self)
			}
			defer fr.havocSharedAtLock(lis)
		}
	}
	ct := ex.findContract(ci)
	if ct != nil && ct.Inline && ci.fn != nil && len(ci.fn.Blocks) > 0 {
		if res, ok := fr.tryInline(in, ci.fn, args, nil); ok {
			return res
		}
	}
	if ct != nil {
		ex.usedSpecs[ct.Key] = true
		return fr.applyContract(in, ci, ct, args, pos)
	}
	// uncontracted repo function with a body: inline (bounded depth)
	if ci.fn != nil && inRepo(funcPkgPath(ci.fn)) && len(ci.fn.Blocks) > 0 && ex.inlineDepth < 3 && !fr.recursive(ci.fn) {
		if res, ok := fr.tryInline(in, ci.fn, args, nil); ok {
			return res
		}
	}
	// accessor interfaces of internal/adapters (thin wrappers around API object fields): getters are read-only,
	// setters change the wrapped object only (trusted accessor model, listed in the evidence)
	if ci.invoke && (accessorIface(ci.display) || isAdapterIface(c.Value.Type())) {
		m := ci.display[strings.LastIndex(ci.display, ".")+1:]
		ex.usedSpecs["accessor-model "+shortName(ci.display)] = true
		if !accessorMutator(m) {
			res := fr.freshResults(ci.sig, "ret_"+m)
			for _, r := range res {
				// pointers handed out by an accessor point into the wrapped object (or to something older), never into the caller's locals
				if r.G != nil && isPointerLike(r.G) {
					ex.assume(fmt.Sprintf("(or (<= (root %s) allocbase) (= (root %s) (root (ival %s))))", r.T, r.T, ci.recv.T), fr.curReach)
				}
			}
			return res
		}
		if accessorMutator(m) {
			// a setter changes only the wrapped API object: Go memory, and the abstract rows of the adapter and of its client object
			nm := fr.curMem.clone()
			// (Go memory is not havocked: the fields behind the accessor interfaces are read through accessors only — stated assumption)
			ec := fr.evalCtx(nm, nm)
			ids := []string{ec.objid(*ci.recv).T}
			if ct := ex.S.Aliases["clientObj"]; ct != nil {
				fname := fmt.Sprintf("pf_%s_0", sanitize(shortName(ct.Key)))
				ex.declFun(fname, "(Iface) Iface")
				ids = append(ids, ec.objid(Val{T: fmt.Sprintf("(%s %s)", fname, ci.recv.T), S: SIface}).T)
			}
			for _, mn := range sortedKeys(ex.S.Models) {
				md := ex.S.Models[mn]
				if len(md.Params) == 0 || !(md.Params[0].Obj && md.Params[0].Name == "o") || md.Ghost {
					continue
				}
				an, _ := ex.modelArray(mn)
				_, rowSort, _ := arraySorts(md.arraySort())
				for _, id := range ids {
					ex.memSet(nm, an, fmt.Sprintf("(store %s %s %s)", ex.memGet(nm, an), id, ex.fresh("row_"+mn, rowSort)))
				}
			}
			fr.curMem = nm
			return fr.freshResults(ci.sig, "ret_"+m)
		}
	}
	return fr.unknownCall(ci, args)
}

func accessorIface(display string) bool {
	return strings.HasPrefix(display, "package-operator.run/internal/adapters.") ||
		strings.Contains(display, ".genericObjectSetPhase.") || strings.Contains(display, ".objectSetAccessor.")
}

func (fr *Frame) recursive(fn *ssa.Function) bool {
	return fn == fr.fn || fn == fr.ex.top
}

// unknownCall: arbitrary results, all state havocked.
func (fr *Frame) unknownCall(ci calleeInfo, args []Val) []Val {
	ex := fr.ex
	ex.unknownCalls[ci.display]++
	isLib := !strings.HasPrefix(ci.display, "package-operator.run/") && !strings.HasPrefix(ci.display, "(package-operator.run/") &&
		!strings.HasPrefix(ci.display, "field package-operator.run/") && !strings.HasPrefix(ci.display, "dynamic:")
	if isLib {
		fr.curMem = ex.havocLib(fr.curMem) // library code cannot change pure ghost state
	} else {
		fr.curMem = ex.newMem()
		fr.curMem.lost = true
	}
	return fr.freshResults(ci.sig, "ret_"+lastSeg(ci.display))
}

func lastSeg(s string) string {
	if i := strings.LastIndexAny(s, "./"); i >= 0 {
		return sanitize(s[i+1:])
	}
	return sanitize(s)
}

func (fr *Frame) freshResults(sig *types.Signature, hint string) []Val {
	ex := fr.ex
	var out []Val
	if sig == nil {
		return out
	}
	for j := 0; j < sig.Results().Len(); j++ {
		t := sig.Results().At(j).Type()
		s := ex.D.sortOf(t)
		v := Val{T: ex.fresh(hint, s), S: s, G: t}
		ex.typeAssume(v, t, fr.curReach, false)
		out = append(out, v)
	}
	return out
}

// applyContract: check requires, havoc assigns, assume ensures.
func (fr *Frame) applyContract(in ssa.Instruction, ci calleeInfo, ct *Contract, args []Val, pos token.Pos) []Val {
	ex := fr.ex
	names := fr.bindParams(ci, ct, args)
	names["$callee"] = Val{T: ct.Key, S: SInt} // marks a contract applied at a call site (per-call witness functions: sortperm)
	// variadic string arguments built from literals get a stable key (e.g. "status.observedGeneration")
	if cc := callCommonOf(in); cc != nil && ci.sig != nil && ci.sig.Variadic() && len(cc.Args) > 0 {
		names["varargs_key"] = fr.varargsKey(cc.Args[len(cc.Args)-1])
		names["dryrun"] = Val{T: fr.varargsHaveGlobal(cc.Args[len(cc.Args)-1], "DryRunAll"), S: SBool}
	}
	pre := fr.curMem
	// requires
	for i, rq := range ct.Requires {
		if !clauseApplies(rq, ex.Prop) {
			continue
		}
		ec := fr.evalCtx(pre, pre)
		ec.names = names
		ec.goal = true
		g, err := ec.tryBool(rq.E)
		if err != nil {
			ex.failOb("contract-typechecks", "pre/"+lastSeg(ci.display), err.Error()+" in requires "+rq.Src, pos)
			continue
		}
		fr.siteCount["pre:"+ci.display]++
		ex.oblige("pre", fmt.Sprintf("%s#%d.%d", lastSeg(ci.display), fr.callOrdinal(in, ci.display), i+1), g, fr.curReach,
			"precondition of "+shortName(ci.display)+": "+rq.Src, pos, rq.Prop)
		ex.assume(g, fr.curReach)
	}
	watermark := ex.lastRef // everything the caller allocated so far pre-exists from the callee's point of view
	// frame
	post := pre
	if !ct.Readonly {
		post = pre.clone()
		if !ct.HasAssigns {
			post = ex.newMem()
			post.lost = true
			// ghost model fields change only through ghost clauses / assigns clauses of contracts. One that no contract other
			// than the function under verification writes cannot be changed by this callee (stated assumption: the callee
			// does not call back into the function under verification).
			for _, mn := range sortedKeys(ex.S.Models) {
				md := ex.S.Models[mn]
				if !md.Ghost {
					continue
				}
				if ex.ghostWrittenOnlyByTop(mn) {
					an, _ := ex.modelArray(mn)
					post.arrays[an] = ex.memGet(pre, an)
				}
			}
		} else {
			ec := fr.evalCtx(pre, pre)
			ec.names = names
			fr.havocTargets(post, ct.Assigns, ec)
			if post == nil {
				post = ex.newMem()
			}
		}
	}
	fr.curMem = post
	// results
	var res []Val
	if ct.Pure && ci.sig.Results().Len() >= 1 {
		// function of the arguments
		for j := 0; j < ci.sig.Results().Len(); j++ {
			t := ci.sig.Results().At(j).Type()
			s := ex.D.sortOf(t)
			fname := fmt.Sprintf("pf_%s_%d", sanitize(shortName(ct.Key)), j)
			var as, ss []string
			if ci.recv != nil {
				as = append(as, ci.recv.T)
				ss = append(ss, string(ci.recv.S))
			}
			for _, a := range args {
				as = append(as, a.T)
				ss = append(ss, string(a.S))
			}
			var term string
			if len(as) == 0 {
				ex.declFun(fname, "() "+string(s))
				term = fname
			} else {
				ex.declFun(fname, "("+strings.Join(ss, " ")+") "+string(s))
				term = "(" + fname + " " + strings.Join(as, " ") + ")"
			}
			v := Val{T: ex.define("pf", s, term), S: s, G: t}
			ex.typeAssume(v, t, fr.curReach, false)
			res = append(res, v)
		}
	} else {
		res = fr.freshResults(ci.sig, "ret_"+lastSeg(ci.display))
	}
	if ct.Kind == "lib" || (ct.Kind == "iface" && !strings.HasPrefix(ct.Key, "package-operator.run/")) {
		for j, r := range res {
			if isErrorType(ci.sig.Results().At(j).Type()) {
				ex.assume(fmt.Sprintf("(libErr %s)", r.T), fr.curReach)
			}
		}
	}
	bindResultNames(names, ci.sig, res)
	for _, f := range ct.Fresh {
		// each listed expression denotes a reference allocated by this call, distinct from every other allocation
		fe, perr := parseExpr(f)
		if perr != nil {
			ex.failOb("contract-typechecks", "fresh/"+lastSeg(ci.display), perr.Error(), pos)
			continue
		}
		ec := fr.evalCtx(post, pre)
		ec.names = names
		v, err := func() (v Val, err error) {
			defer func() {
				if rr := recover(); rr != nil {
					if e, ok := rr.(evalErr); ok {
						err = fmt.Errorf("%s", string(e))
						return
					}
					panic(rr)
				}
			}()
			return ec.eval(fe), nil
		}()
		if err != nil {
			ex.failOb("contract-typechecks", "fresh/"+lastSeg(ci.display), err.Error()+" in fresh "+f, pos)
			continue
		}
		r := ex.freshRef("fresh_" + sanitize(f))
		t := v.T
		if v.S == SIface {
			t = fmt.Sprintf("(ival %s)", v.T)
		} else if v.S == SSlice {
			t = fmt.Sprintf("(sarr %s)", v.T)
		}
		ex.assume(fmt.Sprintf("(= %s %s)", t, r), fr.curReach)
	}
	for _, en := range ct.Ensures {
		ec := fr.evalCtx(post, pre)
		ec.names = names
		ec.frameBase = watermark
		g, err := ec.tryBool(en.E)
		if err != nil {
			ex.failOb("contract-typechecks", "post/"+lastSeg(ci.display), err.Error()+" in ensures "+en.Src, pos)
			continue
		}
		ex.assume(g, fr.curReach)
	}
	return res
}

func (fr *Frame) callOrdinal(in ssa.Instruction, display string) int {
	// ordinal among call sites of the same callee in this function, by source position
	type site struct {
		pos token.Pos
		in  ssa.Instruction
	}
	var sites []site
	for _, b := range fr.fn.Blocks {
		for _, i2 := range b.Instrs {
			var cc *ssa.CallCommon
			switch x := i2.(type) {
			case *ssa.Call:
				cc = &x.Call
			case *ssa.Defer:
				cc = &x.Call
			case *ssa.Go:
				cc = &x.Call
			}
			if cc == nil {
				continue
			}
			if _, isB := cc.Value.(*ssa.Builtin); isB {
				continue
			}
			if fr.calleeDisplayQuick(cc) == display {
				sites = append(sites, site{i2.Pos(), i2})
			}
		}
	}
	sort.SliceStable(sites, func(i, j int) bool { return sites[i].pos < sites[j].pos })
	for i, s := range sites {
		if s.in == in {
			return i + 1
		}
	}
	return 0
}

func (fr *Frame) calleeDisplayQuick(c *ssa.CallCommon) string {
	if !c.IsInvoke() && c.StaticCallee() == nil {
		return fr.calleeOf(c).display
	}
	if c.IsInvoke() {
		return types.TypeString(c.Value.Type(), nil) + "." + c.Method.Name()
	}
	if fn := c.StaticCallee(); fn != nil {
		if fn.Origin() != nil {
			return canonNameAny(fn.Origin())
		}
		return canonNameAny(fn)
	}
	return "dynamic:" + c.Value.Name()
}

// inSpare: address a lies in the backing array of slice s but is not one of its first len(s) elements.
func inSpare(a, s string) string {
	return fmt.Sprintf("(and (= (root %s) (root (sarr %s))) (not (and (= %s (ea (ea_arr %s) (ea_idx %s))) (= (ea_arr %s) (sarr %s)) (>= (ea_idx %s) (soff %s)) (< (ea_idx %s) (+ (soff %s) (slen %s))))))", a, s, a, a, a, a, s, a, s, a, s, s)
}

// havocTargets applies an assigns clause to mem.
func (fr *Frame) havocTargets(mem *MemState, targets []AssignTarget, ec *EvalCtx) {
	ex := fr.ex
	// Go memory locations first (addresses evaluated in the pre-state), then model rows (identities in the new state)
	var ordered []AssignTarget
	for _, a := range targets {
		if a.Spare != nil || a.Alloc != nil {
			ordered = append(ordered, a)
		}
	}
	for _, a := range targets {
		if a.Deref != nil {
			ordered = append(ordered, a)
		}
	}
	for _, a := range targets {
		if a.Deref == nil && a.Spare == nil && a.Alloc == nil {
			ordered = append(ordered, a)
		}
	}
	rowCtx := *ec
	rowCtx.mem = mem
	for _, a := range ordered {
		switch {
		case a.Nothing:
		case a.All:
			nm := ex.newMem()
			mem.arrays, mem.ep = nm.arrays, nm.ep
			mem.lost = true
		case a.Mem:
			ex.havocGoMemory(mem)
		case a.Maps:
			var ks []string
			for k := range ex.arrSorts {
				if strings.HasPrefix(k, "MH_") || strings.HasPrefix(k, "MV_") || k == "ML" {
					ks = append(ks, k)
				}
			}
			sort.Strings(ks)
			for _, k := range ks {
				ex.memHavoc(mem, k)
			}
		case a.Model == "allrows":
			row := rowCtx.objid(rowCtx.eval(a.Arg))
			for _, mn := range sortedKeys(ex.S.Models) {
				md := ex.S.Models[mn]
				if len(md.Params) == 0 || !(md.Params[0].Obj && md.Params[0].Name == "o") {
					continue
				}
				an, _ := ex.modelArray(mn)
				_, rowSort, _ := arraySorts(md.arraySort())
				cur := ex.memGet(mem, an)
				fv := ex.fresh("row_"+mn, rowSort)
				ex.memSet(mem, an, fmt.Sprintf("(store %s %s %s)", cur, row.T, fv))
			}
		case a.Model != "":
			an, md := ex.modelArray(a.Model)
			if md == nil {
				panic(evalErr("assigns: unknown model field " + a.Model))
			}
			if a.Arg == nil || len(md.Params) == 0 {
				ex.memHavoc(mem, an)
				continue
			}
			row := rowCtx.argFor(rowCtx.eval(a.Arg), md.Params[0])
			_, rowSort, _ := arraySorts(md.arraySort())
			cur := ex.memGet(mem, an)
			fv := ex.fresh("row_"+a.Model, rowSort)
			ex.memSet(mem, an, fmt.Sprintf("(store %s %s %s)", cur, row.T, fv))
		case a.Alloc != nil:
			pv := ec.coerce(ec.eval(a.Alloc), SInt)
			var ks []string
			for k := range ex.arrSorts {
				if strings.HasPrefix(k, "M_") || strings.HasPrefix(k, "MH_") || strings.HasPrefix(k, "MV_") || k == "ML" {
					ks = append(ks, k)
				}
			}
			sort.Strings(ks)
			for _, an := range ks {
				if a.AllocClass != "" && an != a.AllocClass {
					continue
				}
				cur := ex.memGet(mem, an)
				nw := ex.fresh("allochavoc_"+an, ex.arrSorts[an])
				cond := fmt.Sprintf("(not (= (root a) (root %s)))", pv.T)
				if !strings.HasPrefix(an, "M_") {
					cond = "(<= (root a) allocbase)" // maps: only function-local maps may be reached from a local target (stated assumption)
				}
				ex.assume(fmt.Sprintf("(forall ((a Int)) (! (=> %s (= (select %s a) (select %s a))) :pattern ((select %s a))))", cond, nw, cur, nw), fr.curReach)
				ex.memSet(mem, an, nw)
			}
		case a.Spare != nil:
			sv := ec.eval(a.Spare)
			st, ok := sv.G.Underlying().(*types.Slice)
			if !ok {
				panic(evalErr("sparecap: " + exprString(a.Spare) + " is not a slice"))
			}
			arrs := map[string]bool{}
			ex.leafArraysOf(st.Elem(), arrs, map[string]bool{})
			for _, an := range sortedKeys(arrs) {
				cur := ex.memGet(mem, an)
				nw := ex.fresh("spare_"+an, ex.arrSorts[an])
				ex.assume(fmt.Sprintf("(forall ((a Int)) (! (=> (not %s) (= (select %s a) (select %s a))) :pattern ((select %s a))))", inSpare("a", sv.T), nw, cur, nw), fr.curReach)
				ex.memSet(mem, an, nw)
			}
		case a.Deref != nil:
			lv := ec.lvalOf(a.Deref)
			s := ex.D.sortOf(lv.t)
			fv := ex.fresh("havoc_loc", s)
			ex.store(mem, lv.t, lv.addr, fv)
			ex.typeAssume(Val{T: fv, S: s, G: lv.t}, lv.t, fr.curReach, false)
		}
	}
}

// siteClauses checks "sink"/"at" clauses of the enclosing function's contract that match this call.
var writeSinkMethods = map[string]bool{"Create": true, "Update": true, "Patch": true, "Delete": true, "DeleteAllOf": true}

func isWriteSink(display string) bool {
	i := strings.LastIndex(display, ".")
	if i < 0 || !writeSinkMethods[display[i+1:]] {
		return false
	}
	recv := display[:i]
	for _, t := range []string{"client.Writer", "client.Client", "client.StatusWriter", "client.SubResourceWriter", "client.WithWatch"} {
		if strings.HasSuffix(recv, "sigs.k8s.io/controller-runtime/pkg/"+t) {
			return true
		}
	}
	return false
}

// siteClauses checks "sink"/"at" clauses of the top function's contract that match this call.
// Clauses apply to call sites of the function under contract; call sites inside inlined callees are addressed
// as "<callee function name>:<pattern>". Every API write site must be covered by a sink clause (sink census).
func (fr *Frame) siteClauses(in ssa.Instruction, c *ssa.CallCommon, display string, ci *calleeInfo, args []Val, results []Val, after bool) {
	ex := fr.ex
	top := ex.topContract
	if top == nil {
		return
	}
	prefix := ""
	if !fr.isTop {
		prefix = fr.fn.Name() + ":"
	}
	var matched []SiteSpec
	// a helper inlined into the function under contract that the contract does not address by name ("helper:…" clauses):
	// the un-prefixed clauses of the contract apply to its call sites too (code moved into a new helper keeps its clauses)
	unaddressed := false
	if prefix != "" {
		unaddressed = true
		for _, s := range top.Sites {
			if strings.HasPrefix(s.Callee, prefix) {
				unaddressed = false
			}
		}
	}
	for si, s := range top.Sites {
		pat := s.Callee
		if prefix != "" {
			if strings.HasPrefix(pat, prefix) {
				pat = strings.TrimPrefix(pat, prefix)
			} else if unaddressed && !strings.Contains(pat, ":") {
				// keep pat
			} else {
				continue
			}
		} else if strings.Contains(pat, ":") {
			continue
		}
		if s.After != after {
			continue
		}
		if !siteMatches(display, pat) {
			continue
		}
		if s.Ord != 0 && fr.siteOrdinal(in, pat) != s.Ord {
			continue
		}
		s2 := s
		s2.Callee = pat
		matched = append(matched, s2)
		ex.markSite(si)
	}
	if len(matched) == 0 {
		if !after && isWriteSink(display) && !ex.sweepOnly {
			ex.failOb("sink-census", fmt.Sprintf("%s%s#%d", prefix, lastSeg(display), fr.callOrdinal(in, display)),
				"API write call "+shortName(display)+" in "+fr.fn.Name()+" has no sink clause in the contract of "+shortName(canonName(ex.top)), in.Pos())
		}
		return
	}
	names := map[string]Val{}
	if after {
		for i, r := range results {
			names[fmt.Sprintf("result%d", i)] = r
		}
		if len(results) == 1 {
			names["result"] = results[0]
		}
	}
	if ci != nil {
		// only positional names (arg0.., recv, varargs): callee parameter names must not shadow the caller's locals
		if ci.recv != nil {
			names["recv"] = *ci.recv
		}
		off := 0
		if ci.sig != nil && ci.sig.Recv() != nil && !ci.invoke {
			off = 1
		}
		for i := off; i < len(args); i++ {
			names[fmt.Sprintf("arg%d", i-off)] = args[i]
		}
		if ci.sig != nil && ci.sig.Variadic() && len(args) > 0 {
			names["varargs"] = args[len(args)-1]
		}
		if cc := callCommonOf(in); cc != nil && ci.sig != nil && ci.sig.Variadic() && len(cc.Args) > 0 {
			names["dryrun"] = Val{T: fr.varargsHaveGlobal(cc.Args[len(cc.Args)-1], "DryRunAll"), S: SBool}
		}
	}
	for i, s := range matched {
		ec := fr.evalCtx(fr.curMem, ex.topEntry)
		ec.names = names
		ec.at = in
		ec.goal = true
		// inside a loop: loopentry(...) and loop-variable names refer to the innermost enclosing loop
		var best *loopInfo
		for _, li := range fr.loops {
			if li.body[in.Block()] && (best == nil || len(li.body) < len(best.body)) {
				best = li
			}
		}
		if best != nil && best.entryMemForOld != nil {
			ec.loop = best
			ec.loopEntry = best.entryMemForOld
		}
		if s.Kind == "ghost" {
			fr.applyGhost(in, s.Ghost, ec)
			continue
		}
		if s.Kind == "never" {
			ex.oblige("never", fmt.Sprintf("%s%s#%d", sanitize(prefix), sanitize(s.Callee), fr.siteOrdinal(in, s.Callee)), "false", fr.curReach, "the contract forbids calling "+s.Callee+" here: "+s.Cl.Src, in.Pos(), s.Cl.Prop)
			continue
		}
		g, err := ec.tryBool(s.Cl.E)
		if err != nil {
			ex.failOb("contract-typechecks", "site/"+s.Callee, err.Error()+" in "+s.Cl.Src, in.Pos())
			continue
		}
		ord := fr.siteOrdinal(in, s.Callee)
		if i == 0 && s.Kind == "sink" {
			ex.cover(fmt.Sprintf("sink-%s%s#%d-reachable", sanitize(prefix), sanitize(s.Callee), ord), fr.curReach, "the write site is reachable under the contract's hypotheses", in.Pos())
		}
		switch s.Kind {
		case "sink":
			ex.oblige("sink", fmt.Sprintf("%s%s#%d.%d", sanitize(prefix), sanitize(s.Callee), ord, i+1), g, fr.curReach, "call-site precondition of "+s.Callee+": "+s.Cl.Src, in.Pos(), s.Cl.Prop)
			if clauseTaggedFor(s.Cl, ex.Prop) {
				ex.assume(g, fr.curReach) // clauses of other properties are generated (and reported by their own check) but not assumed here
			}
		case "assert":
			ex.oblige("assert", fmt.Sprintf("%s%s#%d.%d", sanitize(prefix), sanitize(s.Callee), ord, i+1), g, fr.curReach, "assertion before "+s.Callee+": "+s.Cl.Src, in.Pos(), s.Cl.Prop)
			if clauseTaggedFor(s.Cl, ex.Prop) {
				ex.assume(g, fr.curReach)
			}
		}
	}
}

func (fr *Frame) siteClausesNamed(in ssa.Instruction, display string, pos token.Pos) {
	ex := fr.ex
	if ex.topContract == nil || !fr.isTop {
		return
	}
	for i, s := range ex.topContract.Sites {
		if !clauseApplies(s.Cl, ex.Prop) || s.Callee != display {
			continue
		}
		ex.markSite(i)
		ec := fr.evalCtx(fr.curMem, fr.entryMem)
		ec.at = in
		ec.goal = true
		if s.Kind == "ghost" {
			fr.applyGhost(in, s.Ghost, ec)
			continue
		}
		g, err := ec.tryBool(s.Cl.E)
		if err != nil {
			ex.failOb("contract-typechecks", "site/"+s.Callee, err.Error()+" in "+s.Cl.Src, pos)
			continue
		}
		ex.oblige(s.Kind, fmt.Sprintf("%s.%d", display, i+1), g, fr.curReach, s.Kind+" at "+display+": "+s.Cl.Src, pos, s.Cl.Prop)
		ex.assume(g, fr.curReach)
	}
}

func siteMatches(display, pat string) bool {
	if strings.Contains(pat, "|") {
		// alternatives: "helper|leafA|leafB" names a site that may sit in a helper or, once the helper is inlined, at
		// the calls the helper made
		for _, alt := range strings.Split(pat, "|") {
			if alt != "" && siteMatches(display, alt) {
				return true
			}
		}
		return false
	}
	if pat == display {
		return true
	}
	return strings.HasSuffix(display, "."+pat) || strings.HasSuffix(display, pat)
}

func (fr *Frame) siteOrdinal(in ssa.Instruction, pat string) int {
	type site struct {
		pos token.Pos
		in  ssa.Instruction
	}
	var sites []site
	for _, b := range fr.fn.Blocks {
		for _, i2 := range b.Instrs {
			var cc *ssa.CallCommon
			switch x := i2.(type) {
			case *ssa.Call:
				cc = &x.Call
			case *ssa.Defer:
				cc = &x.Call
			case *ssa.Go:
				cc = &x.Call
			}
			if cc == nil {
				continue
			}
			if bi, isB := cc.Value.(*ssa.Builtin); isB {
				if bi.Name() == "append" && pat == "append" {
					sites = append(sites, site{i2.Pos(), i2})
				}
				continue
			}
			d := fr.calleeDisplayQuick(cc)
			if _, isGo := i2.(*ssa.Go); isGo && pat == "go" {
				sites = append(sites, site{i2.Pos(), i2})
				continue
			}
			if siteMatches(d, pat) {
				sites = append(sites, site{i2.Pos(), i2})
			}
		}
	}
	sort.SliceStable(sites, func(i, j int) bool { return sites[i].pos < sites[j].pos })
	for i, s := range sites {
		if s.in == in {
			return i + 1
		}
	}
	return 0
}

// ---- inlining ----

func (fr *Frame) tryInline(in ssa.Instruction, fn *ssa.Function, args []Val, free []Val) (res []Val, ok bool) {
	ex := fr.ex
	// loops in the callee need its own contract's invariants; without them inlining still works (invariant "true")
	child := newFrame(ex, fn)
	child.parentFrame = fr
	if ct, has := ex.S.Contracts[canonName(fn)]; has {
		child.contract = ct
	} else if ct, has := ex.S.Contracts[shortName(canonName(fn))]; has {
		child.contract = ct
	} else if top := ex.topContract; top != nil && len(top.AnchoredLoops) > 0 && fn.Pkg != nil && ex.top != nil && fn.Pkg == ex.top.Pkg {
		// a helper without a contract of its own (code extracted from the function under contract): the anchored loop
		// specs of the contract being verified follow the loop into the helper
		al := map[int]*LoopSpec{}
		for _, k := range top.AnchoredLoops {
			al[k] = top.Loops[k]
		}
		child.contract = &Contract{Key: top.Key + "/anchored", Loops: al, AnchoredLoops: top.AnchoredLoops}
	}
	for i, p := range fn.Params {
		if i < len(args) {
			child.vals[p] = Val{T: args[i].T, S: ex.D.sortOf(p.Type()), G: p.Type()}
			child.params[p.Name()] = child.vals[p]
		}
	}
	for i, fv := range fn.FreeVars {
		if i < len(free) {
			child.freeVars[fv] = free[i]
		}
	}
	ex.inlineDepth++
	defer func() { ex.inlineDepth-- }()
	savedBody, savedObs := len(ex.body), len(ex.obs)
	_ = savedBody
	_ = savedObs
	func() {
		defer func() {
			if r := recover(); r != nil {
				if e, isE := r.(engineErr); isE {
					ex.note("inlining of %s failed (%s): treated as unknown call", fn.Name(), string(e))
					ok = false
					return
				}
				panic(r)
			}
		}()
		child.run(fr.curReach, fr.curMem)
		ok = true
	}()
	if !ok {
		return nil, false
	}
	// merge returns
	if len(child.returns) == 0 {
		// callee never returns (panics): path ends
		fr.curReach = "false"
		return fr.freshResults(fn.Signature, "noret"), true
	}
	var conds []string
	var mems []*MemState
	for _, r := range child.returns {
		conds = append(conds, r.reach)
		mems = append(mems, r.mem)
	}
	fr.curMem = ex.mergeMem(mems, conds)
	n := fn.Signature.Results().Len()
	for j := 0; j < n; j++ {
		t := fn.Signature.Results().At(j).Type()
		s := ex.D.sortOf(t)
		e := child.returns[len(child.returns)-1].results[j].T
		for i := len(child.returns) - 2; i >= 0; i-- {
			e = ite(child.returns[i].reach, child.returns[i].results[j].T, e)
		}
		res = append(res, Val{T: ex.define("inl_"+fn.Name(), s, e), S: s, G: t})
	}
	// if the callee can panic on some paths, the caller continues only on returning paths
	if len(child.panicked) > 0 {
		nr := ex.fresh("reach_after_"+sanitize(fn.Name()), SBool)
		ex.emit("(assert (= %s %s))", nr, and(fr.curReach, or(conds...)))
		fr.curReach = nr
	}
	return res, true
}

func (fr *Frame) inlineClosure(in ssa.Instruction, mc *ssa.MakeClosure, args []Val) []Val {
	fn := mc.Fn.(*ssa.Function)
	var free []Val
	for _, b := range mc.Bindings {
		free = append(free, fr.val(b))
	}
	if res, ok := fr.tryInline(in, fn, args, free); ok {
		return res
	}
	ci := calleeInfo{display: canonNameAny(fn), sig: fn.Signature}
	return fr.unknownCall(ci, args)
}

func callCommonOf(in ssa.Instruction) *ssa.CallCommon {
	switch x := in.(type) {
	case *ssa.Call:
		return &x.Call
	case *ssa.Defer:
		return &x.Call
	case *ssa.Go:
		return &x.Call
	}
	return nil
}

// varargsKey: "a.b.c" literal when the variadic strings are constants, else an arbitrary string.
func (fr *Frame) varargsKey(v ssa.Value) Val {
	ex := fr.ex
	sl, ok := v.(*ssa.Slice)
	if ok {
		if al, ok := sl.X.(*ssa.Alloc); ok {
			if at, ok := al.Type().Underlying().(*types.Pointer).Elem().Underlying().(*types.Array); ok {
				parts := make([]string, at.Len())
				found := 0
				for _, ref := range *al.Referrers() {
					ia, ok := ref.(*ssa.IndexAddr)
					if !ok {
						continue
					}
					k, ok := ia.Index.(*ssa.Const)
					if !ok {
						continue
					}
					idx, _ := constant.Int64Val(k.Value)
					for _, r2 := range *ia.Referrers() {
						if st, ok := r2.(*ssa.Store); ok && st.Addr == ia {
							if c, ok := st.Val.(*ssa.Const); ok && c.Value != nil && c.Value.Kind() == constant.String {
								parts[idx] = constant.StringVal(c.Value)
								found++
							}
						}
					}
				}
				if found == int(at.Len()) {
					return Val{T: ex.D.strLit(strings.Join(parts, ".")), S: SStr}
				}
			}
		}
	}
	return Val{T: ex.fresh("varargs_key", SStr), S: SStr}
}

// varargsHaveGlobal: "true" if the variadic slice literal contains the value of the named package-level variable,
// "false" if the slice is a literal without it; unknown slices give an arbitrary Bool.
func (fr *Frame) varargsHaveGlobal(v ssa.Value, global string) string {
	ex := fr.ex
	if c, ok := v.(*ssa.Const); ok && c.Value == nil {
		return "false"
	}
	sl, ok := v.(*ssa.Slice)
	if !ok {
		return ex.fresh("dryrun", SBool)
	}
	al, ok := sl.X.(*ssa.Alloc)
	if !ok {
		return ex.fresh("dryrun", SBool)
	}
	for _, ref := range *al.Referrers() {
		ia, ok := ref.(*ssa.IndexAddr)
		if !ok {
			continue
		}
		for _, r2 := range *ia.Referrers() {
			st, ok := r2.(*ssa.Store)
			if !ok || st.Addr != ia {
				continue
			}
			val := st.Val
			for {
				switch x := val.(type) {
				case *ssa.ChangeInterface:
					val = x.X
					continue
				case *ssa.MakeInterface:
					val = x.X
					continue
				}
				break
			}
			if u, ok := val.(*ssa.UnOp); ok {
				if g, ok := u.X.(*ssa.Global); ok && g.Name() == global {
					return "true"
				}
			}
			if g, ok := val.(*ssa.Global); ok && g.Name() == global {
				return "true"
			}
		}
	}
	return "false"
}

// havocGoMemory: all Go memory (heap cells, maps, channels) becomes arbitrary; model fields are kept.
func (ex *Exec) havocGoMemory(mem *MemState) {
	for _, mn := range sortedKeys(ex.S.Models) {
		an, _ := ex.modelArray(mn)
		ex.memGet(mem, an) // materialise before switching epochs
	}
	keep := map[string]string{}
	for k, v := range mem.arrays {
		if strings.HasPrefix(k, "F_") || strings.HasPrefix(k, "IT") {
			keep[k] = v
		}
	}
	nm := ex.newMem()
	mem.arrays, mem.ep = nm.arrays, nm.ep
	mem.memLost = true
	for k, v := range keep {
		mem.arrays[k] = v
	}
}

var bodyAssignsDepth = 0

// bodyAssigns: state a (to be inlined) function body may modify.
func (fr *Frame) bodyAssigns(fn *ssa.Function, out map[string]bool, depth int) (map[string]bool, bool) {
	ex := fr.ex
	if bodyAssignsDepth > 3 || fn == fr.fn || fn == ex.top {
		return out, true
	}
	bodyAssignsDepth++
	defer func() { bodyAssignsDepth-- }()
	child := newFrame(ex, fn)
	all := false
	for _, b := range fn.Blocks {
		for _, in := range b.Instrs {
			switch x := in.(type) {
			case *ssa.Store:
				et := x.Addr.Type().Underlying().(*types.Pointer).Elem()
				ex.leafArraysOf(et, out, map[string]bool{})
			case *ssa.Alloc:
				et := x.Type().Underlying().(*types.Pointer).Elem()
				ex.leafArraysOf(et, out, map[string]bool{})
			case *ssa.MapUpdate:
				mt := x.Map.Type().Underlying().(*types.Map)
				has, val, _, _ := ex.mapArrays(mt)
				out[has], out[val], out["ML"] = true, true, true
			case *ssa.MakeMap:
				mt := x.Type().Underlying().(*types.Map)
				has, _, _, _ := ex.mapArrays(mt)
				out[has], out["ML"] = true, true
			case *ssa.MakeSlice:
				ex.leafArraysOf(x.Type().Underlying().(*types.Slice).Elem(), out, map[string]bool{})
			case *ssa.Call:
				_, al := child.callAssigns(&x.Call)
				a, _ := child.callAssigns(&x.Call)
				for k := range a {
					out[k] = true
				}
				if al {
					all = true
				}
			case *ssa.Defer:
				a, al := child.callAssigns(&x.Call)
				for k := range a {
					out[k] = true
				}
				if al {
					all = true
				}
			case *ssa.Go, *ssa.Send, *ssa.Range, *ssa.Next:
				all = true
			}
		}
	}
	return out, all
}

// havocLib: everything may change except pure ghost state.
func (ex *Exec) havocLib(mem *MemState) *MemState {
	nm := ex.newMem()
	nm.lost = true
	for _, mn := range sortedKeys(ex.S.Models) {
		if md := ex.S.Models[mn]; md.Ghost {
			an, _ := ex.modelArray(mn)
			nm.arrays[an] = ex.memGet(mem, an)
		}
	}
	return nm
}

// lockCall recognises Lock/Unlock calls on a mutex field that carries a lock invariant.
func (fr *Frame) lockCall(display string, c *ssa.CallCommon) ([]*LockInv, Val, bool, bool) {
	var isUnlock bool
	switch display {
	case "sync.(*RWMutex).Lock", "sync.(*RWMutex).RLock", "sync.(*Mutex).Lock":
	case "sync.(*RWMutex).Unlock", "sync.(*RWMutex).RUnlock", "sync.(*Mutex).Unlock":
		isUnlock = true
	default:
		return nil, Val{}, false, false
	}
	if len(c.Args) == 0 {
		return nil, Val{}, false, false
	}
	fa, ok := c.Args[0].(*ssa.FieldAddr)
	if !ok {
		return nil, Val{}, false, false
	}
	st := fa.X.Type().Underlying().(*types.Pointer).Elem()
	sn := types.TypeString(st, nil)
	stt, ok := st.Underlying().(*types.Struct)
	if !ok {
		return nil, Val{}, false, false
	}
	fname := stt.Field(fa.Field).Name()
	var out []*LockInv
	for i := range fr.ex.S.LockInvs {
		li := &fr.ex.S.LockInvs[i]
		if (li.Struct == sn || "package-operator.run/"+li.Struct == sn) && li.Field == fname {
			out = append(out, li)
		}
	}
	if len(out) > 0 {
		return out, fr.val(fa.X), isUnlock, true
	}
	return nil, Val{}, false, false
}

func (fr *Frame) lockInvOblige(in ssa.Instruction, li *LockInv, self Val) {
	ex := fr.ex
	ec := fr.evalCtx(fr.curMem, ex.topEntry)
	ec.names = map[string]Val{"self": self}
	ec.goal = true
	g, err := ec.tryBool(li.Cl.E)
	if err != nil {
		ex.failOb("contract-typechecks", "lockinv/"+li.Field, err.Error()+" in "+li.Cl.Src, in.Pos())
		return
	}
	detail := li.Field
	if k := fr.returnOrdinalOfCurrentBlock(); k > 0 {
		detail = fmt.Sprintf("%s@return#%d", li.Field, k)
	}
	ex.oblige("lockinv", detail, g, fr.curReach, "lock invariant of "+li.Field+" re-established before unlock: "+li.Cl.Src, in.Pos(), li.Cl.Prop)
}

func (fr *Frame) lockInvAssume(li *LockInv, self Val) {
	ex := fr.ex
	ec := fr.evalCtx(fr.curMem, ex.topEntry)
	ec.names = map[string]Val{"self": self}
	g, err := ec.tryBool(li.Cl.E)
	if err != nil {
		return
	}
	ex.assume(g, fr.curReach)
	if fr.isTop && ex.topContract != nil {
		for _, st := range ex.topContract.Stables {
			ec2 := fr.evalCtx(fr.curMem, ex.topEntry)
			if g2, err := ec2.tryBool(st.E); err == nil {
				ex.assume(g2, fr.curReach)
				ex.note("stability assumption (fact about lock-protected state that other threads cannot invalidate): %s", st.Src)
			} else {
				ex.failOb("contract-typechecks", "stable", err.Error()+" in "+st.Src, token.NoPos)
			}
		}
	}
}

// guardedField: is the field address a lock-guarded field? returns the address term of its mutex.
func (fr *Frame) guardedField(fa *ssa.FieldAddr) (string, bool) {
	ex := fr.ex
	st := fa.X.Type().Underlying().(*types.Pointer).Elem()
	stt, ok := st.Underlying().(*types.Struct)
	if !ok {
		return "", false
	}
	sn := types.TypeString(st, nil)
	fname := stt.Field(fa.Field).Name()
	for _, g := range ex.S.Guarded {
		if (g.Struct == sn || "package-operator.run/"+g.Struct == sn) && g.Field == fname {
			for i := 0; i < stt.NumFields(); i++ {
				if stt.Field(i).Name() == g.Mutex {
					return ex.D.fieldAddr(st, i, fr.val(fa.X).T), true
				}
			}
		}
	}
	return "", false
}

// guardedSource: the mutex address if v is (derived by lookups/ranges from) a load of a guarded field.
func (fr *Frame) guardedSource(v ssa.Value, depth int) (string, bool) {
	if depth > 4 {
		return "", false
	}
	switch x := v.(type) {
	case *ssa.UnOp:
		if fa, ok := x.X.(*ssa.FieldAddr); ok && x.Op == token.MUL {
			return fr.guardedField(fa)
		}
	case *ssa.Lookup:
		return fr.guardedSource(x.X, depth+1)
	case *ssa.Extract:
		switch t := x.Tuple.(type) {
		case *ssa.Lookup:
			return fr.guardedSource(t.X, depth+1)
		case *ssa.Next:
			if r, ok := t.Iter.(*ssa.Range); ok {
				return fr.guardedSource(r.X, depth+1)
			}
		}
	}
	return "", false
}

func (fr *Frame) heldTerm(mutexAddr string) string {
	ex := fr.ex
	an, md := ex.modelArray("held")
	if md == nil {
		return "0"
	}
	return fmt.Sprintf("(select %s %s)", ex.memGet(fr.curMem, an), mutexAddr)
}

// returnOrdinalOfCurrentBlock: ordinal (source order) of the return statement ending the current block, 0 if none.
func (fr *Frame) returnOrdinalOfCurrentBlock() int {
	var cur *ssa.Return
	if fr.curBlock != nil && len(fr.curBlock.Instrs) > 0 {
		cur, _ = fr.curBlock.Instrs[len(fr.curBlock.Instrs)-1].(*ssa.Return)
	}
	if cur == nil {
		return 0
	}
	var rets []*ssa.Return
	for _, b := range fr.fn.Blocks {
		if b == fr.fn.Recover {
			continue
		}
		for _, in := range b.Instrs {
			if r, ok := in.(*ssa.Return); ok {
				rets = append(rets, r)
			}
		}
	}
	sort.SliceStable(rets, func(i, j int) bool { return rets[i].Pos() < rets[j].Pos() })
	for i, r := range rets {
		if r == cur {
			return i + 1
		}
	}
	return 0
}

// applyGhost executes a ghost assignment "model(arg) := E" in the current state.
func (fr *Frame) applyGhost(in ssa.Instruction, g *GhostSet, ec *EvalCtx) {
	ex := fr.ex
	an, md := ex.modelArray(g.Model)
	if md == nil {
		ex.failOb("contract-typechecks", "ghost", "unknown model field "+g.Model, in.Pos())
		return
	}
	ec.goal = false
	err := func() (err error) {
		defer func() {
			if rr := recover(); rr != nil {
				if e, ok := rr.(evalErr); ok {
					err = fmt.Errorf("%s", string(e))
					return
				}
				panic(rr)
			}
		}()
		v := ec.coerce(ec.eval(g.Val.E), md.Ret)
		nm := fr.curMem.clone()
		if g.Arg == nil {
			ex.memSet(nm, an, v.T)
		} else {
			row := ec.argFor(ec.eval(g.Arg), md.Params[0])
			ex.memSet(nm, an, fmt.Sprintf("(store %s %s %s)", ex.memGet(nm, an), row.T, v.T))
		}
		fr.curMem = nm
		return nil
	}()
	if err != nil {
		ex.failOb("contract-typechecks", "ghost", err.Error()+" in ghost "+g.Val.Src, in.Pos())
	}
}

// havocSharedAtLock: other threads may have changed lock-protected state before the lock was acquired:
// Go memory, channel state and the model fields named in the lock invariant become arbitrary (then the invariant is assumed).
func (fr *Frame) havocSharedAtLock(lis []*LockInv) {
	ex := fr.ex
	pre := fr.curMem
	nm := fr.curMem.clone()
	ex.havocGoMemory(nm)
	nm.memLost = fr.curMem.memLost
	nm.ep.base = ex.lastRef // what other threads left behind pre-exists from here on
	if nm.ep.base == "" {
		nm.ep.base = "allocbase"
	}
	// memory allocated by this very function execution is not visible to other threads yet (or is only read by them)
	var ks []string
	for k := range ex.arrSorts {
		if strings.HasPrefix(k, "M_") || strings.HasPrefix(k, "MH_") || strings.HasPrefix(k, "MV_") || k == "ML" {
			ks = append(ks, k)
		}
	}
	sort.Strings(ks)
	for _, k := range ks {
		if _, touched := pre.arrays[k]; !touched || os.Getenv("NO_LOCAL_KEEP") != "" {
			continue
		}
		ex.emit("(assert (forall ((a Int)) (! (=> (> (root a) allocbase) (= (select %s a) (select %s a))) :pattern ((select %s a)))))", ex.memGet(nm, k), ex.memGet(pre, k), ex.memGet(nm, k))
	}
	nm.ep.base = ex.lastRef // what other threads left behind pre-exists from here on
	if nm.ep.base == "" {
		nm.ep.base = "allocbase"
	}
	for _, k := range []string{"CH_cap", "CH_queued"} {
		if _, ok := ex.arrSorts[k]; ok {
			ex.memHavoc(nm, k)
		}
	}
	done := map[string]bool{}
	for _, li := range lis {
		for _, mn := range modelsIn(li.Cl.E, ex.S) {
			if mn == "held" || done[mn] {
				continue
			}
			done[mn] = true
			an, _ := ex.modelArray(mn)
			ex.memHavoc(nm, an)
		}
	}
	fr.curMem = nm
}

func modelsIn(e Expr, S *Specs) []string {
	seen := map[string]bool{}
	var walk func(e Expr)
	walk = func(e Expr) {
		switch x := e.(type) {
		case *ECall:
			if _, ok := S.Models[x.Fn]; ok {
				seen[x.Fn] = true
			}
			if d, ok := S.Defs[x.Fn]; ok {
				walk(d.Body)
			}
			for _, a := range x.Args {
				walk(a)
			}
		case *EIdent:
			if m, ok := S.Models[x.Name]; ok && len(m.Params) == 0 {
				seen[x.Name] = true
			}
		case *EUn:
			walk(x.X)
		case *EBin:
			walk(x.X)
			walk(x.Y)
		case *ESel:
			walk(x.X)
		case *EIdx:
			walk(x.X)
			walk(x.I)
		case *EUpd:
			walk(x.X)
			walk(x.I)
			walk(x.V)
		case *EQuant:
			walk(x.Body)
		case *EIte:
			walk(x.C)
			walk(x.A)
			walk(x.B)
		}
	}
	walk(e)
	return sortedKeys(seen)
}

// accessorMutator: methods of the adapter interfaces that change the wrapped object (by naming convention).
func accessorMutator(m string) bool {
	for _, p := range []string{"Set", "Remove", "Update", "Add", "Delete"} {
		if strings.HasPrefix(m, p) {
			return true
		}
	}
	return false
}

// ghostWrittenOnlyByTop: no contract except the one of the function under verification has a ghost clause or an
// assigns clause naming model field mn.
func (ex *Exec) ghostWrittenOnlyByTop(mn string) bool {
	if ex.ghostWriters == nil {
		ex.ghostWriters = map[string]map[string]bool{}
		add := func(m, key string) {
			if ex.ghostWriters[m] == nil {
				ex.ghostWriters[m] = map[string]bool{}
			}
			ex.ghostWriters[m][key] = true
		}
		seen := map[*Contract]bool{}
		for _, ct := range ex.S.Contracts {
			if seen[ct] {
				continue
			}
			seen[ct] = true
			for _, g := range ct.Ghosts {
				add(g.Model, ct.Key)
			}
			for _, st := range ct.Sites {
				if st.Ghost != nil {
					add(st.Ghost.Model, ct.Key)
				}
			}
			for _, a := range ct.Assigns {
				if a.Model != "" {
					add(a.Model, ct.Key)
				}
				if a.All {
					for mn := range ex.S.Models {
						add(mn, ct.Key)
					}
				}
			}
			for _, l := range ct.Loops {
				for _, a := range l.Assigns {
					if a.Model != "" {
						add(a.Model, ct.Key)
					}
				}
			}
		}
	}
	w := ex.ghostWriters[mn]
	if len(w) == 0 {
		return true
	}
	if ex.topContract == nil {
		return false
	}
	for k := range w {
		if k != ex.topContract.Key {
			return false
		}
	}
	return true
}

func (ex *Exec) markSite(i int) {
	if ex.siteMatched == nil {
		ex.siteMatched = map[int]bool{}
	}
	ex.siteMatched[i] = true
}

// clauseTaggedFor: the clause carries no property tag or is tagged for prop.
func clauseTaggedFor(c Clause, prop string) bool {
	if len(c.Prop) == 0 || prop == "" {
		return true
	}
	for _, p := range c.Prop {
		if p == prop {
			return true
		}
	}
	return false
}
