package main

import (
	"fmt"
	"go/constant"
	"go/types"
	"strings"

	"golang.org/x/tools/go/ssa"
)

func (fr *Frame) builtin(in ssa.Instruction, b *ssa.Builtin, c *ssa.CallCommon) []Val {
	ex := fr.ex
	switch b.Name() {
	case "len":
		v := fr.val(c.Args[0])
		switch t := c.Args[0].Type().Underlying().(type) {
		case *types.Slice:
			return []Val{{T: ex.define("len", SInt, fmt.Sprintf("(slen %s)", v.T)), S: SInt, G: types.Typ[types.Int]}}
		case *types.Basic:
			return []Val{{T: ex.define("len", SInt, fmt.Sprintf("(strlen %s)", v.T)), S: SInt, G: types.Typ[types.Int]}}
		case *types.Map:
			return []Val{{T: ex.define("len", SInt, ex.mapLen(fr.curMem, v.T)), S: SInt, G: types.Typ[types.Int]}}
		case *types.Array:
			return []Val{{T: fmt.Sprintf("%d", t.Len()), S: SInt, G: types.Typ[types.Int]}}
		case *types.Pointer:
			if at, ok := t.Elem().Underlying().(*types.Array); ok {
				return []Val{{T: fmt.Sprintf("%d", at.Len()), S: SInt, G: types.Typ[types.Int]}}
			}
		case *types.Chan:
			r := ex.fresh("chlen", SInt)
			ex.assume(fmt.Sprintf("(>= %s 0)", r), fr.curReach)
			return []Val{{T: r, S: SInt, G: types.Typ[types.Int]}}
		}
		panic(engineErr("len of " + c.Args[0].Type().String()))
	case "cap":
		v := fr.val(c.Args[0])
		if _, ok := c.Args[0].Type().Underlying().(*types.Slice); ok {
			return []Val{{T: fmt.Sprintf("(scap %s)", v.T), S: SInt, G: types.Typ[types.Int]}}
		}
		r := ex.fresh("cap", SInt)
		ex.assume(fmt.Sprintf("(>= %s 0)", r), fr.curReach)
		return []Val{{T: r, S: SInt, G: types.Typ[types.Int]}}
	case "append":
		return []Val{fr.appendBuiltin(in, c)}
	case "copy":
		dst := fr.val(c.Args[0])
		st, ok := c.Args[0].Type().Underlying().(*types.Slice)
		if !ok {
			panic(engineErr("copy to non-slice"))
		}
		// n = min(len dst, len src); dst[0:n] = src[0:n]; other memory unchanged
		var srcLen string
		src := fr.val(c.Args[1])
		srcIsStr := src.S == SStr
		if srcIsStr {
			srcLen = fmt.Sprintf("(strlen %s)", src.T)
		} else {
			srcLen = fmt.Sprintf("(slen %s)", src.T)
		}
		n := ex.define("copyn", SInt, fmt.Sprintf("(ite (< (slen %s) %s) (slen %s) %s)", dst.T, srcLen, dst.T, srcLen))
		leaves := fr.leafPaths(st.Elem())
		for _, lf := range leaves {
			cur := ex.memGet(fr.curMem, lf.arr)
			nv := ex.memHavoc(fr.curMem, lf.arr)
			e := lf.inv("a")
			inRange := fmt.Sprintf("(and (= a %s) (= (ea_arr %s) (sarr %s)) (>= (ea_idx %s) (soff %s)) (< (ea_idx %s) (+ (soff %s) %s)))", lf.apply(fmt.Sprintf("(ea (ea_arr %s) (ea_idx %s))", e, e)), e, dst.T, e, dst.T, e, dst.T, n)
			var srcVal string
			if srcIsStr {
				ex.declFun("strat", "(Str Int) Int")
				srcVal = fmt.Sprintf("(strat %s (- (ea_idx a) (soff %s)))", src.T, dst.T)
			} else {
				srcVal = fmt.Sprintf("(select %s %s)", cur, lf.apply(fmt.Sprintf("(ea (sarr %s) (+ (soff %s) (- (ea_idx %s) (soff %s))))", src.T, src.T, lf.inv("a"), dst.T)))
			}
			ex.emit("(assert (forall ((a Int)) (! (= (select %s a) (ite %s %s (select %s a))) :pattern ((select %s a)))))", nv, inRange, srcVal, cur, nv)
		}
		return []Val{{T: n, S: SInt, G: types.Typ[types.Int]}}
	case "delete":
		if mu, ok := fr.guardedSource(c.Args[0], 0); ok {
			ex.oblige("lock", "delete-map", fmt.Sprintf("(= %s 2)", fr.heldTerm(mu)), fr.curReach, "guarded map written while holding the write lock", in.Pos(), []string{"C12", "C20"})
		}
		mt := c.Args[0].Type().Underlying().(*types.Map)
		fr.names["deletemap"] = fr.val(c.Args[0])
		fr.names["deletekey"] = fr.val(c.Args[1])
		fr.siteClausesNamed(in, "delete", in.Pos())
		ex.mapDelete(fr.curMem, mt, fr.val(c.Args[0]).T, fr.val(c.Args[1]).T)
		return nil
	case "close":
		return nil
	case "print", "println":
		return nil
	case "new":
		r := ex.freshRef("new")
		return []Val{{T: r, S: SInt, G: c.Signature().Results().At(0).Type()}}
	case "min", "max":
		a, bb := fr.val(c.Args[0]), fr.val(c.Args[1])
		op := "<"
		if b.Name() == "max" {
			op = ">"
		}
		return []Val{{T: ex.define(b.Name(), a.S, fmt.Sprintf("(ite (%s %s %s) %s %s)", op, a.T, bb.T, a.T, bb.T)), S: a.S, G: a.G}}
	case "ssa:wrapnilchk":
		return []Val{fr.val(c.Args[0])}
	case "panic":
		return nil
	case "recover":
		panic(engineErr("recover not supported"))
	case "clear":
		panic(engineErr("clear not supported"))
	}
	panic(engineErr("builtin " + b.Name()))
}

type leafPath struct {
	arr  string
	path []string // address functions applied innermost-first to the element address
}

func (l leafPath) apply(base string) string {
	t := base
	for _, f := range l.path {
		t = fmt.Sprintf("(%s %s)", f, t)
	}
	return t
}

// inv peels the field-address functions off address a to get the element address.
func (l leafPath) inv(a string) string {
	t := a
	for i := len(l.path) - 1; i >= 0; i-- {
		t = fmt.Sprintf("(%s_inv %s)", l.path[i], t)
	}
	return t
}

// leafPaths enumerates the scalar leaves of a (possibly struct) element type.
func (fr *Frame) leafPaths(t types.Type) []leafPath {
	ex := fr.ex
	var out []leafPath
	var walk func(t types.Type, path []string, depth int)
	walk = func(t types.Type, path []string, depth int) {
		if st, ok := t.Underlying().(*types.Struct); ok && depth < 6 {
			for i := 0; i < st.NumFields(); i++ {
				fa := ex.D.fieldAddr(t, i, "x") // ensures declaration
				fn := fa[1:strings.Index(fa, " ")]
				walk(st.Field(i).Type(), append(append([]string{}, path...), fn), depth+1)
			}
			return
		}
		if _, ok := t.Underlying().(*types.Array); ok {
			return
		}
		out = append(out, leafPath{arr: ex.leafArray(t), path: path})
	}
	walk(t, nil, 0)
	return out
}

// appendBuiltin models append(s, t...) per the Go spec: in place when capacity suffices, else a fresh array.
func (fr *Frame) appendBuiltin(in ssa.Instruction, c *ssa.CallCommon) Val {
	ex := fr.ex
	s := fr.val(c.Args[0])
	st := c.Args[0].Type().Underlying().(*types.Slice)
	t := fr.val(c.Args[1])
	var tlen string
	tIsStr := t.S == SStr
	if tIsStr {
		tlen = fmt.Sprintf("(strlen %s)", t.T)
	} else {
		tlen = fmt.Sprintf("(slen %s)", t.T)
	}
	newLen := ex.define("applen", SInt, fmt.Sprintf("(+ (slen %s) %s)", s.T, tlen))
	inPlace := ex.define("inplace", SBool, fmt.Sprintf("(and (<= %s (scap %s)) (not (= (sarr %s) 0)))", newLen, s.T, s.T))
	fr2 := ex.freshRef("apparr")
	ncap := ex.fresh("appcap", SInt)
	ex.assume(fmt.Sprintf("(>= %s %s)", ncap, newLen), fr.curReach)
	noop := fmt.Sprintf("(= %s 0)", tlen) // appending nothing returns s itself
	res := ex.define("append", SSlice, ite(noop, s.T, ite(inPlace,
		fmt.Sprintf("(mkS (sarr %s) (soff %s) %s (scap %s))", s.T, s.T, newLen, s.T),
		fmt.Sprintf("(mkS %s 0 %s %s)", fr2, newLen, ncap))))
	rv := Val{T: res, S: SSlice, G: c.Args[0].Type()}
	// memory: for every leaf of the element type
	for _, lf := range fr.leafPaths(st.Elem()) {
		cur := ex.memGet(fr.curMem, lf.arr)
		nv := ex.memHavoc(fr.curMem, lf.arr)
		ea := lf.inv("a")
		// a is an element leaf of the result array at index i (relative to result offset)
		isRes := fmt.Sprintf("(and (= a %s) (= (ea_arr %s) (sarr %s)))", lf.apply(fmt.Sprintf("(ea (ea_arr %s) (ea_idx %s))", ea, ea)), ea, res)
		rel := fmt.Sprintf("(- (ea_idx %s) (soff %s))", ea, res)
		oldElem := fmt.Sprintf("(select %s %s)", cur, lf.apply(fmt.Sprintf("(ea (sarr %s) (+ (soff %s) %s))", s.T, s.T, rel)))
		var newElem string
		if tIsStr {
			ex.declFun("strat", "(Str Int) Int")
			newElem = fmt.Sprintf("(strat %s (- %s (slen %s)))", t.T, rel, s.T)
		} else {
			newElem = fmt.Sprintf("(select %s %s)", cur, lf.apply(fmt.Sprintf("(ea (sarr %s) (+ (soff %s) (- %s (slen %s))))", t.T, t.T, rel, s.T)))
		}
		val := fmt.Sprintf("(ite (and %s (not %s) (>= %s 0) (< %s %s)) (ite (< %s (slen %s)) %s %s) (select %s a))",
			isRes, noop, rel, rel, newLen, rel, s.T, oldElem, newElem, cur)
		ex.emit("(assert (forall ((a Int)) (! (= (select %s a) %s) :pattern ((select %s a)))))", nv, val, nv)
	}
	_ = in
	return rv
}

// ---- special handlers for library functions with engine-level semantics ----

type special struct {
	run     func(fr *Frame, in ssa.Instruction, c *ssa.CallCommon, ci calleeInfo, args []Val) []Val
	assigns func(fr *Frame, c *ssa.CallCommon, out map[string]bool) (map[string]bool, bool)
}

func noAssigns(fr *Frame, c *ssa.CallCommon, out map[string]bool) (map[string]bool, bool) {
	return out, false
}

var noEffectPrefixes = []string{
	"github.com/go-logr/logr.", "(github.com/go-logr/logr.Logger).", "(*github.com/go-logr/logr.Logger).",
	"sigs.k8s.io/controller-runtime/pkg/log.", "log.", "(*log.Logger).", "k8s.io/klog/v2.",
}

func specialHandler(display string) *special {
	for _, p := range noEffectPrefixes {
		if strings.HasPrefix(display, p) {
			return &special{run: func(fr *Frame, in ssa.Instruction, c *ssa.CallCommon, ci calleeInfo, args []Val) []Val {
				return fr.freshResults(ci.sig, "log")
			}, assigns: noAssigns}
		}
	}
	switch display {
	case "k8s.io/client-go/util/retry.RetryOnConflict", "k8s.io/client-go/util/retry.OnError":
		return &special{run: runRetry, assigns: func(fr *Frame, c *ssa.CallCommon, out map[string]bool) (map[string]bool, bool) {
			if mc := retryClosure(c); mc != nil {
				return fr.bodyAssigns(mc.Fn.(*ssa.Function), out, 0)
			}
			return out, true
		}}
	case "sort.Slice", "sort.SliceStable":
		return &special{run: runSortSlice, assigns: func(fr *Frame, c *ssa.CallCommon, out map[string]bool) (map[string]bool, bool) {
			if len(c.Args) == 2 {
				if mi, ok := c.Args[0].(*ssa.MakeInterface); ok {
					if st, ok := mi.X.Type().Underlying().(*types.Slice); ok {
						fr.ex.leafArraysOf(st.Elem(), out, map[string]bool{})
						return out, false
					}
				}
			}
			return out, true
		}}
	case "fmt.Errorf":
		return &special{run: runErrorf, assigns: noAssigns}
	case "errors.New":
		return &special{run: func(fr *Frame, in ssa.Instruction, c *ssa.CallCommon, ci calleeInfo, args []Val) []Val {
			ex := fr.ex
			e := ex.fresh("errnew", SIface)
			tag := ex.D.tagOf(errorsStringType(ex))
			ex.assume(fmt.Sprintf("(and (= (itag %s) %d) (not (= (ival %s) 0)))", e, tag, e), fr.curReach)
			ex.assume(fmt.Sprintf("(forall ((t Int)) (! (= (chainHas %s t) (= t %d)) :pattern ((chainHas %s t))))", e, tag, e), fr.curReach)
			return []Val{{T: e, S: SIface, G: ci.sig.Results().At(0).Type()}}
		}, assigns: noAssigns}
	case "errors.As":
		return &special{run: runErrorsAs, assigns: func(fr *Frame, c *ssa.CallCommon, out map[string]bool) (map[string]bool, bool) {
			// writes *target
			if len(c.Args) == 2 {
				if mi, ok := c.Args[1].(*ssa.MakeInterface); ok {
					if pt, ok := mi.X.Type().Underlying().(*types.Pointer); ok {
						fr.ex.leafArraysOf(pt.Elem(), out, map[string]bool{})
						return out, false
					}
				}
			}
			return out, true
		}}
	case "errors.Is":
		return &special{run: func(fr *Frame, in ssa.Instruction, c *ssa.CallCommon, ci calleeInfo, args []Val) []Val {
			ex := fr.ex
			ex.declFun("errIs", "(Iface Iface) Bool")
			ex.D.declOnce("errIs_ax", "(assert (forall ((e Iface)) (! (=> (not (= (itag e) 0)) (errIs e e)) :pattern ((errIs e e)))))")
			ex.D.declOnce("errIs_ax2", "(assert (forall ((e Iface)) (! (not (errIs (mkI 0 0) e)) :pattern ((errIs (mkI 0 0) e)))))")
			return []Val{{T: ex.define("errIs", SBool, fmt.Sprintf("(errIs %s %s)", args[0].T, args[1].T)), S: SBool, G: types.Typ[types.Bool]}}
		}, assigns: noAssigns}
	case "fmt.Sprintf", "fmt.Sprint", "fmt.Sprintln":
		return &special{run: func(fr *Frame, in ssa.Instruction, c *ssa.CallCommon, ci calleeInfo, args []Val) []Val {
			ex := fr.ex
			// the result is a function of the format and the formatted values (nothing else is known about it) when the
			// variadic arguments are strings whose values are known at the call; otherwise an arbitrary string
			if display == "fmt.Sprintf" && len(c.Args) == 2 {
				if elems, ok := fr.varargsStringElems(c.Args[1]); ok {
					fn := fmt.Sprintf("sprintf_%d", len(elems))
					uf := ex.S.UFuns[fmt.Sprintf("sprintf%d", len(elems))] // nameable in contracts when a spec declares it
					if uf != nil && len(uf.Params) == len(elems)+1 {
						ex.declUFun(uf)
						fn = "uf_" + uf.Name
					} else {
						uf = nil
					}
					sig := "(Str"
					call := "(" + fn + " " + args[0].T
					for _, e := range elems {
						sig += " Str"
						call += " " + e
					}
					if uf == nil {
						ex.declFun(fn, sig+") Str")
					}
					return []Val{{T: ex.define("sprintf", SStr, call+")"), S: SStr, G: types.Typ[types.String]}}
				}
			}
			return []Val{{T: ex.fresh("sprintf", SStr), S: SStr, G: types.Typ[types.String]}}
		}, assigns: noAssigns}
	}
	return nil
}

func errorsStringType(ex *Exec) types.Type {
	if p := ex.P.Pkgs["errors"]; p != nil {
		if o := p.Pkg.Scope().Lookup("errorString"); o != nil {
			return types.NewPointer(o.Type())
		}
	}
	return types.Typ[types.String]
}

// fmt.Errorf: fresh non-nil error of a fmt-internal type; %w arguments are wrapped (chainHas distributes).
func runErrorf(fr *Frame, in ssa.Instruction, c *ssa.CallCommon, ci calleeInfo, args []Val) []Val {
	ex := fr.ex
	e := ex.fresh("errorf", SIface)
	var wtype types.Type = types.Typ[types.String]
	if p := ex.P.Pkgs["fmt"]; p != nil {
		if o := p.Pkg.Scope().Lookup("wrapError"); o != nil {
			wtype = types.NewPointer(o.Type())
		}
	}
	tag := ex.D.tagOf(wtype)
	ex.assume(fmt.Sprintf("(and (= (itag %s) %d) (not (= (ival %s) 0)))", e, tag, e), fr.curReach)
	// which arguments are wrapped?
	var wrapped []string
	format := ""
	if k, ok := c.Args[0].(*ssa.Const); ok && k.Value != nil && k.Value.Kind() == constant.String {
		format = constant.StringVal(k.Value)
	}
	verbs := parseVerbs(format)
	elems := fr.varargElems(c.Args[len(c.Args)-1])
	known := format != "" && elems != nil && len(elems) == len(verbs)
	if known {
		for i, v := range verbs {
			if v == 'w' {
				wrapped = append(wrapped, elems[i].T)
			}
		}
		var disj []string
		disj = append(disj, fmt.Sprintf("(= t %d)", tag))
		for _, w := range wrapped {
			disj = append(disj, fmt.Sprintf("(chainHas %s t)", w))
		}
		ex.assume(fmt.Sprintf("(forall ((t Int)) (! (= (chainHas %s t) %s) :pattern ((chainHas %s t))))", e, or(disj...), e), fr.curReach)
		// API error classifiers and other "wrap-invariant" predicates follow the chain too
		ex.D.declOnce("wrapsOf", "(declare-fun wraps (Iface Iface) Bool)")
		for _, w := range wrapped {
			ex.assume(fmt.Sprintf("(wraps %s %s)", e, w), fr.curReach)
		}
		if len(wrapped) == 0 {
			ex.D.declOnce("noWrap", "(declare-fun nowrap (Iface) Bool)")
			ex.assume(fmt.Sprintf("(nowrap %s)", e), fr.curReach)
		}
	} else {
		ex.note("fmt.Errorf with non-constant format or unknown varargs in %s: wrap chain unknown", fr.fn.Name())
	}
	return []Val{{T: e, S: SIface, G: ci.sig.Results().At(0).Type()}}
}

func parseVerbs(f string) []byte {
	var out []byte
	for i := 0; i < len(f); i++ {
		if f[i] != '%' {
			continue
		}
		i++
		for i < len(f) && strings.ContainsRune("+-# 0123456789.[]*", rune(f[i])) {
			i++
		}
		if i < len(f) {
			if f[i] == '%' {
				continue
			}
			out = append(out, f[i])
		}
	}
	return out
}

// varargElems recovers the elements of a varargs slice built in the same function (new [n]T; &t[i]; store; slice).
func (fr *Frame) varargElems(v ssa.Value) []Val {
	sl, ok := v.(*ssa.Slice)
	if !ok {
		if c, isC := v.(*ssa.Const); isC && c.Value == nil {
			return []Val{}
		}
		return nil
	}
	al, ok := sl.X.(*ssa.Alloc)
	if !ok {
		return nil
	}
	at, ok := al.Type().Underlying().(*types.Pointer).Elem().Underlying().(*types.Array)
	if !ok {
		return nil
	}
	out := make([]Val, at.Len())
	found := 0
	for _, ref := range *al.Referrers() {
		ia, ok := ref.(*ssa.IndexAddr)
		if !ok {
			continue
		}
		k, ok := ia.Index.(*ssa.Const)
		if !ok {
			return nil
		}
		idx, _ := constant.Int64Val(k.Value)
		for _, r2 := range *ia.Referrers() {
			if st, ok := r2.(*ssa.Store); ok && st.Addr == ia {
				// value stored: unwrap MakeInterface/ChangeInterface to the original
				val := st.Val
				for {
					if ci, ok := val.(*ssa.ChangeInterface); ok {
						val = ci.X
						continue
					}
					break
				}
				if vv, ok := fr.vals[val]; ok {
					out[idx] = vv
				} else if c, ok := val.(*ssa.Const); ok {
					out[idx] = fr.ex.constVal(c)
				} else {
					return nil
				}
				found++
			}
		}
	}
	if found != int(at.Len()) {
		return nil
	}
	return out
}

// errors.As(err, &target): true iff the chain has the target's type; on success *target has that dynamic type.
func runErrorsAs(fr *Frame, in ssa.Instruction, c *ssa.CallCommon, ci calleeInfo, args []Val) []Val {
	ex := fr.ex
	res := ex.fresh("errorsAs", SBool)
	mi, ok := c.Args[1].(*ssa.MakeInterface)
	if !ok {
		fr.curMem = ex.newMem()
		return []Val{{T: res, S: SBool, G: types.Typ[types.Bool]}}
	}
	pt, ok := mi.X.Type().Underlying().(*types.Pointer)
	if !ok {
		fr.curMem = ex.newMem()
		return []Val{{T: res, S: SBool, G: types.Typ[types.Bool]}}
	}
	tt := pt.Elem()
	target := fr.val(mi.X)
	if _, isIface := tt.Underlying().(*types.Interface); isIface {
		// target is an interface type: some error in the chain implements it
		pred := ex.D.implementsPred(tt)
		ex.declFun("chainImpl_"+pred, "(Iface) Bool")
		ex.assume(fmt.Sprintf("(= %s (chainImpl_%s %s))", res, pred, args[0].T), fr.curReach)
		ex.assume(fmt.Sprintf("(not (chainImpl_%s (mkI 0 0)))", pred), fr.curReach) // errors.As(nil, …) is false
		nv := ex.fresh("astarget", SIface)
		ex.assume(implies(res, fmt.Sprintf("(%s (itag %s))", pred, nv)), fr.curReach)
		old := ex.load(fr.curMem, tt, target.T)
		ex.store(fr.curMem, tt, target.T, ite(res, nv, old))
		return []Val{{T: res, S: SBool, G: types.Typ[types.Bool]}}
	}
	tag := ex.D.tagOf(tt)
	ex.assume(fmt.Sprintf("(= %s (chainHas %s %d))", res, args[0].T, tag), fr.curReach)
	s := ex.D.sortOf(tt)
	nv := ex.fresh("astarget", s)
	if isPointerLike(tt) {
		ex.assume(implies(res, fmt.Sprintf("(not (= %s 0))", nv)), fr.curReach)
	}
	old := ex.load(fr.curMem, tt, target.T)
	ex.store(fr.curMem, tt, target.T, ite(res, nv, old))
	return []Val{{T: res, S: SBool, G: types.Typ[types.Bool]}}
}

// sort.Slice(x, less): the elements of x are permuted (bijection sortperm on [0,len): the element now at a was at
// sortperm(a)); nothing else changes. When the less literal has a contract "ensures result == E" (E over its two
// parameters and the captured variables), the result is sorted by it: for positions j < i, !less(i, j).
func runSortSlice(fr *Frame, in ssa.Instruction, c *ssa.CallCommon, ci calleeInfo, args []Val) []Val {
	ex := fr.ex
	mi, ok := c.Args[0].(*ssa.MakeInterface)
	var st *types.Slice
	if ok {
		st, ok = mi.X.Type().Underlying().(*types.Slice)
	}
	if !ok {
		fr.curMem = ex.havocLib(fr.curMem)
		return nil
	}
	s := fr.val(mi.X)
	n := fr.siteOrdinal(in, ci.display)
	perm := fmt.Sprintf("sortperm_%s_%d", sanitize(canonName(fr.fn)), n)
	inv := perm + "_inv"
	ex.declFun(perm, "(Int) Int")
	ex.declFun(inv, "(Int) Int")
	if ex.sortPerms == nil {
		ex.sortPerms = map[string]string{}
	}
	ex.sortPerms[fmt.Sprintf("%s#%d", canonName(fr.fn), n)] = perm
	ln := fmt.Sprintf("(slen %s)", s.T)
	ex.assume(fmt.Sprintf("(forall ((a Int)) (! (=> (and (<= 0 a) (< a %s)) (and (<= 0 (%s a)) (< (%s a) %s) (= (%s (%s a)) a))) :pattern ((%s a))))", ln, perm, perm, ln, inv, perm, perm), fr.curReach)
	ex.assume(fmt.Sprintf("(forall ((a Int)) (! (=> (and (<= 0 a) (< a %s)) (and (<= 0 (%s a)) (< (%s a) %s) (= (%s (%s a)) a))) :pattern ((%s a))))", ln, inv, inv, ln, perm, inv, inv), fr.curReach)
	for _, lf := range fr.leafPaths(st.Elem()) {
		cur := ex.memGet(fr.curMem, lf.arr)
		nv := ex.memHavoc(fr.curMem, lf.arr)
		e := lf.inv("a")
		rel := fmt.Sprintf("(- (ea_idx %s) (soff %s))", e, s.T)
		inRange := fmt.Sprintf("(and (= a %s) (= (ea_arr %s) (sarr %s)) (>= %s 0) (< %s %s))", lf.apply(fmt.Sprintf("(ea (ea_arr %s) (ea_idx %s))", e, e)), e, s.T, rel, rel, ln)
		src := fmt.Sprintf("(select %s %s)", cur, lf.apply(fmt.Sprintf("(ea (sarr %s) (+ (soff %s) (%s %s)))", s.T, s.T, perm, rel)))
		ex.emit("(assert (forall ((a Int)) (! (= (select %s a) (ite %s %s (select %s a))) :pattern ((select %s a)))))", nv, inRange, src, cur, nv)
	}
	// sortedness from the contract of the less literal
	var lessFn *ssa.Function
	captured := map[string]Val{}
	switch x := c.Args[1].(type) {
	case *ssa.MakeClosure:
		lessFn, _ = x.Fn.(*ssa.Function)
		if lessFn != nil {
			for i, b := range x.Bindings {
				if i < len(lessFn.FreeVars) {
					captured[lessFn.FreeVars[i].Name()] = fr.val(b) // as in the literal's own contract: the captured cell
				}
			}
		}
	case *ssa.Function:
		lessFn = x
	}
	if lessFn == nil || len(lessFn.Params) != 2 {
		ex.note("sort.Slice#%d of %s: less is not a function literal; only the permutation is known", n, fr.fn.Name())
		return nil
	}
	ct := ex.S.Contracts[canonName(lessFn)]
	var body Expr
	if ct != nil {
		for _, cl := range ct.Ensures {
			if b, ok := cl.E.(*EBin); ok && b.Op == "==" {
				if id, ok := b.X.(*EIdent); ok && id.Name == "result" {
					body = b.Y
				}
			}
		}
	}
	if body == nil {
		ex.note("sort.Slice#%d of %s: the less literal %s has no contract 'ensures result == E'; only the permutation is known", n, fr.fn.Name(), lessFn.Name())
		return nil
	}
	ex.usedSpecs[ct.Key] = true
	pi, pj := lessFn.Params[0].Name(), lessFn.Params[1].Name()
	rng := &EBin{Op: "&&", X: &EBin{Op: "&&", X: &EBin{Op: "<=", X: &ELit{Kind: "int", Val: "0"}, Y: &EIdent{Name: pj}}, Y: &EBin{Op: "<", X: &EIdent{Name: pj}, Y: &EIdent{Name: pi}}}, Y: &EBin{Op: "<", X: &EIdent{Name: pi}, Y: &EIdent{Name: "sortlen"}}}
	q := &EQuant{Forall: true, Vars: []Binder{{Name: pj, Type: "int"}, {Name: pi, Type: "int"}}, Body: &EBin{Op: "==>", X: rng, Y: &EUn{Op: "!", X: body}}}
	ec := fr.evalCtx(fr.curMem, fr.entryMem)
	for k, v := range captured {
		ec.names[k] = v
	}
	ec.names["sortlen"] = Val{T: ln, S: SInt, G: types.Typ[types.Int]}
	ec.at = in
	g, err := ec.tryBool(q)
	if err != nil {
		ex.note("sort.Slice#%d of %s: the contract of %s cannot be evaluated at the call (%s); only the permutation is known", n, fr.fn.Name(), lessFn.Name(), err.Error())
		return nil
	}
	ex.assume(g, fr.curReach)
	return nil
}

// varargsStringElems: the values of a variadic ...any argument list built at the call site, when every one of them is a
// Go string (boxed into the interface at the call).
func (fr *Frame) varargsStringElems(v ssa.Value) ([]string, bool) {
	sl, ok := v.(*ssa.Slice)
	if !ok {
		return nil, false
	}
	al, ok := sl.X.(*ssa.Alloc)
	if !ok {
		return nil, false
	}
	at, ok := al.Type().Underlying().(*types.Pointer).Elem().Underlying().(*types.Array)
	if !ok || al.Referrers() == nil {
		return nil, false
	}
	out := make([]string, at.Len())
	found := 0
	for _, ref := range *al.Referrers() {
		ia, ok := ref.(*ssa.IndexAddr)
		if !ok || ia.Referrers() == nil {
			continue
		}
		k, ok := ia.Index.(*ssa.Const)
		if !ok {
			return nil, false
		}
		idx, _ := constant.Int64Val(k.Value)
		for _, r2 := range *ia.Referrers() {
			st, ok := r2.(*ssa.Store)
			if !ok || st.Addr != ia {
				continue
			}
			mi, ok := st.Val.(*ssa.MakeInterface)
			if !ok {
				return nil, false
			}
			b, isB := mi.X.Type().Underlying().(*types.Basic)
			if !isB || b.Kind() != types.String {
				return nil, false
			}
			if _, has := fr.vals[mi.X]; !has {
				if _, isC := mi.X.(*ssa.Const); !isC {
					return nil, false
				}
			}
			out[idx] = fr.val(mi.X).T
			found++
		}
	}
	if found != int(at.Len()) {
		return nil, false
	}
	return out, true
}

// retryClosure: the function literal handed to retry.RetryOnConflict / retry.OnError (last argument), if it is one.
func retryClosure(c *ssa.CallCommon) *ssa.MakeClosure {
	if len(c.Args) == 0 {
		return nil
	}
	v := c.Args[len(c.Args)-1]
	for {
		switch x := v.(type) {
		case *ssa.MakeClosure:
			return x
		case *ssa.ChangeType:
			v = x.X
			continue
		}
		return nil
	}
}

// runRetry models retry.RetryOnConflict(backoff, fn): fn runs once in the current state and then possibly again, any
// number of times, each further run starting from a state in which everything fn can assign has an arbitrary value
// (the effect of the earlier runs). Obligations inside fn are therefore generated twice: for the first run and for
// "some later run". The call returns the result of the last run.
func runRetry(fr *Frame, in ssa.Instruction, c *ssa.CallCommon, ci calleeInfo, args []Val) []Val {
	ex := fr.ex
	mc := retryClosure(c)
	if mc == nil {
		return fr.unknownCall(ci, args)
	}
	fn := mc.Fn.(*ssa.Function)
	r1 := fr.inlineClosure(in, mc, nil)
	if len(r1) != 1 {
		return fr.unknownCall(ci, args)
	}
	mem1, reach1 := fr.curMem, fr.curReach
	again := ex.fresh("retry_again", SBool)
	ex.assume(implies(again, fmt.Sprintf("(not (= %s (mkI 0 0)))", r1[0].T)), reach1)
	// state before a later run
	memK := mem1.clone()
	assigned, all := fr.bodyAssigns(fn, map[string]bool{}, 0)
	if all {
		memK = ex.newMem()
		memK.lost = true
	} else {
		if assigned["*lib"] {
			memK = ex.havocLib(memK)
			delete(assigned, "*lib")
			delete(assigned, "*mem")
			for k := range assigned {
				if md := ex.S.Models[strings.TrimPrefix(k, "F_")]; !(md != nil && md.Ghost) {
					delete(assigned, k)
				}
			}
		}
		if assigned["*mem"] {
			ex.havocGoMemory(memK)
			delete(assigned, "*mem")
		}
		for _, k := range sortedKeys(assigned) {
			ex.memHavoc(memK, k)
		}
	}
	fr.curMem = memK
	fr.curReach = ex.define("reach_retry", SBool, and(reach1, again))
	rK := fr.inlineClosure(in, mc, nil)
	memAfterK := fr.curMem
	fr.curReach = reach1
	fr.curMem = ex.mergeMem([]*MemState{memAfterK, mem1}, []string{again, not(again)})
	if len(rK) != 1 {
		return fr.unknownCall(ci, args)
	}
	t := ci.sig.Results().At(0).Type()
	return []Val{{T: ex.define("retry_err", SIface, ite(again, rK[0].T, r1[0].T)), S: SIface, G: t}}
}
