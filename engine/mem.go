package main

import (
	"fmt"
	"go/types"
	"sort"
	"strings"
)

// MemState is a version map of all state arrays (Go memory per leaf class, map contents,
// model fields, iterator ghost sets). Arrays never touched are created lazily per epoch.
type MemState struct {
	arrays map[string]string
	ep     *epoch
	lost   bool // some call with an unknown frame happened: model fields are unrelated to the entry state
	memLost bool // Go memory was havocked wholesale (assigns mem)
}

type epoch struct {
	id      int
	parents []*MemState
	conds   []string
	base    string // allocation watermark for which the entry-style type invariants of memory hold ("" = none)
}

func (ex *Exec) newEpoch() *epoch {
	ex.epochCtr++
	return &epoch{id: ex.epochCtr}
}

func (ex *Exec) newMem() *MemState {
	return &MemState{arrays: map[string]string{}, ep: ex.newEpoch()}
}

func (m *MemState) clone() *MemState {
	n := &MemState{arrays: make(map[string]string, len(m.arrays)), ep: m.ep, lost: m.lost, memLost: m.memLost}
	for k, v := range m.arrays {
		n.arrays[k] = v
	}
	return n
}

// arraySort registers/returns the sort of a state array.
func (ex *Exec) arraySort(name string, s Sort) Sort {
	if old, ok := ex.arrSorts[name]; ok {
		return old
	}
	ex.arrSorts[name] = s
	return s
}

func (ex *Exec) memGet(m *MemState, name string) string {
	if v, ok := m.arrays[name]; ok {
		return v
	}
	s, ok := ex.arrSorts[name]
	if !ok {
		panic(engineErr("internal: array " + name + " has no sort"))
	}
	var v string
	if m.ep.parents == nil {
		v = fmt.Sprintf("%s!e%d", name, m.ep.id)
		if !ex.declaredConst[v] {
			ex.declaredConst[v] = true
			ex.emit("(declare-const %s %s)", v, s)
			base := m.ep.base
			if m.ep.id == ex.entryEpoch {
				base = "allocbase"
			}
			ex.initialArrayAxioms(name, v, s, base)
		}
	} else {
		// merged epoch: ite over parents
		var terms []string
		for _, p := range m.ep.parents {
			terms = append(terms, ex.memGet(p, name))
		}
		same := true
		for _, t := range terms {
			if t != terms[0] {
				same = false
			}
		}
		if same {
			v = terms[0]
		} else {
			e := terms[len(terms)-1]
			for i := len(terms) - 2; i >= 0; i-- {
				e = ite(m.ep.conds[i], terms[i], e)
			}
			v = ex.define(name+"!m", s, e)
		}
	}
	m.arrays[name] = v
	return v
}

func (ex *Exec) memSet(m *MemState, name string, term string) {
	s := ex.arrSorts[name]
	m.arrays[name] = ex.define(name+"!v", s, term)
}

func (ex *Exec) memHavoc(m *MemState, name string) string {
	s := ex.arrSorts[name]
	v := ex.fresh(name+"!h", s)
	m.arrays[name] = v
	if name == "M_Ref" {
		ex.umapAxiom(v)
	}
	return v
}

// mergeMem merges states under the given edge conditions (last one is the default).
func (ex *Exec) mergeMem(states []*MemState, conds []string) *MemState {
	if len(states) == 1 {
		return states[0].clone()
	}
	allSame := true
	for _, s := range states {
		if s != states[0] {
			allSame = false
		}
	}
	if allSame {
		return states[0].clone()
	}
	sameEpoch := true
	for _, s := range states {
		if s.ep != states[0].ep {
			sameEpoch = false
		}
	}
	keys := map[string]bool{}
	for _, s := range states {
		for k := range s.arrays {
			keys[k] = true
		}
	}
	var out *MemState
	if sameEpoch {
		out = &MemState{arrays: map[string]string{}, ep: states[0].ep}
	} else {
		ex.epochCtr++
		out = &MemState{arrays: map[string]string{}, ep: &epoch{id: ex.epochCtr, parents: states, conds: conds}}
	}
	for _, s := range states {
		out.lost = out.lost || s.lost
		out.memLost = out.memLost || s.memLost
	}
	ks := make([]string, 0, len(keys))
	for k := range keys {
		ks = append(ks, k)
	}
	sort.Strings(ks)
	for _, k := range ks {
		var terms []string
		for _, s := range states {
			terms = append(terms, ex.memGet(s, k))
		}
		same := true
		for _, t := range terms {
			if t != terms[0] {
				same = false
			}
		}
		if same {
			out.arrays[k] = terms[0]
			continue
		}
		e := terms[len(terms)-1]
		for i := len(terms) - 2; i >= 0; i-- {
			e = ite(conds[i], terms[i], e)
		}
		out.arrays[k] = ex.define(k+"!m", ex.arrSorts[k], e)
	}
	return out
}

// initialArrayAxioms states type invariants for never-written arrays of the entry epoch.
func (ex *Exec) initialArrayAxioms(name, v string, s Sort, base string) {
	entry := base != ""
	switch name {
	case "M_Slice":
		ex.emit("(assert (forall ((a Int)) (! (and (>= (slen (select %s a)) 0) (>= (soff (select %s a)) 0) (>= (scap (select %s a)) (slen (select %s a))) (=> (= (sarr (select %s a)) 0) (= (slen (select %s a)) 0))) :pattern ((select %s a)))))", v, v, v, v, v, v, v)
		if entry {
			ex.emit("(assert (forall ((a Int)) (! (=> (<= (root a) %s) (<= (root (sarr (select %s a))) %s)) :pattern ((select %s a)))))", base, v, base, v)
		}
	case "M_Ref":
		ex.umapAxiom(v)
		if entry {
			ex.emit("(assert (forall ((a Int)) (! (=> (<= (root a) %s) (<= (root (select %s a)) %s)) :pattern ((select %s a)))))", base, v, base, v)
		}
	case "M_Iface":
		if entry {
			ex.emit("(assert (forall ((a Int)) (! (=> (<= (root a) %s) (<= (root (ival (select %s a))) %s)) :pattern ((select %s a)))))", base, v, base, v)
		}
	case "ML":
		ex.emit("(assert (forall ((a Int)) (! (>= (select %s a) 0) :pattern ((select %s a)))))", v, v)
		ex.emit("(assert (= (select %s 0) 0))", v)
	}
	if strings.HasPrefix(name, "MV_") && entry && ex.mapPtrValued[name] {
		ks := ex.mapKeySort[name]
		ex.emit("(assert (forall ((m Int) (k %s)) (! (=> (<= (root m) %s) (<= (root (select (select %s m) k)) %s)) :pattern ((select (select %s m) k)))))", ks, base, v, base, v)
	}
	if strings.HasPrefix(name, "MV_") && entry && ex.mapSliceValued[name] {
		ks := ex.mapKeySort[name]
		ex.emit("(assert (forall ((m Int) (k %s)) (! (=> (<= (root m) %s) (and (<= (root (sarr (select (select %s m) k))) %s) (>= (slen (select (select %s m) k)) 0) (>= (soff (select (select %s m) k)) 0) (>= (scap (select (select %s m) k)) (slen (select (select %s m) k))))) :pattern ((select (select %s m) k)))))", ks, base, v, base, v, v, v, v, v)
	}
	if strings.HasPrefix(name, "MH_") {
		// nil map has no keys
		ks := ex.mapKeySort[name]
		if ks != "" {
			ex.emit("(assert (forall ((k %s)) (! (not (select (select %s 0) k)) :pattern ((select (select %s 0) k)))))", ks, v, v)
		}
	}
}

// ---- leaf classes ----

func (ex *Exec) leafArray(t types.Type) string {
	s := ex.D.sortOf(t)
	name := "M_" + sortID(s)
	if isPointerLike(t) {
		name = "M_Ref"
	}
	ex.arraySort(name, Sort(fmt.Sprintf("(Array Int %s)", s)))
	return name
}

// load reads a value of Go type t at address addr from memory m.
func (ex *Exec) load(m *MemState, t types.Type, addr string) string {
	switch u := t.Underlying().(type) {
	case *types.Struct:
		si := ex.D.structOf(t)
		if u.NumFields() == 0 {
			return "mk_" + si.id
		}
		var fs []string
		for i := 0; i < u.NumFields(); i++ {
			fs = append(fs, ex.load(m, u.Field(i).Type(), ex.D.fieldAddr(t, i, addr)))
		}
		return fmt.Sprintf("(mk_%s %s)", si.id, strings.Join(fs, " "))
	case *types.Array:
		// whole-array loads are not modelled precisely: arbitrary value
		ex.note("whole-array load of %s modelled as arbitrary value", t)
		return ex.fresh("arrload", ex.D.sortOf(t))
	}
	arr := ex.leafArray(t)
	return fmt.Sprintf("(select %s %s)", ex.memGet(m, arr), addr)
}

// store writes value v (of Go type t) at addr.
func (ex *Exec) store(m *MemState, t types.Type, addr string, v string) {
	switch u := t.Underlying().(type) {
	case *types.Struct:
		si := ex.D.structOf(t)
		// name the value once to keep terms small
		if u.NumFields() > 1 && strings.HasPrefix(v, "(") {
			v = ex.define("sv", Sort(si.id), v)
		}
		for i := 0; i < u.NumFields(); i++ {
			ex.store(m, u.Field(i).Type(), ex.D.fieldAddr(t, i, addr), fmt.Sprintf("(%s_f%d %s)", si.id, i, v))
		}
		return
	case *types.Array:
		ex.note("whole-array store of %s ignored (elements unknown afterwards)", t)
		_ = u
		return
	}
	arr := ex.leafArray(t)
	ex.memSet(m, arr, fmt.Sprintf("(store %s %s %s)", ex.memGet(m, arr), addr, v))
	if arr == "M_Ref" && ex.declaredFun["umap"] {
		if ut := ex.unstructuredType(); ut != nil {
			fa := ex.D.fieldAddr(ut, 0, "p")
			fn := fa[1:strings.Index(fa, " ")]
			// a store into the Object field of an unstructured object fixes its identity (assigned at most once, see DESIGN)
			ex.emit("(assert (=> (and (= %s (%s (%s_inv %s))) (not (= %s 0))) (= (umap (%s_inv %s)) %s)))", addr, fn, fn, addr, v, fn, addr, v)
		}
	}
}

// leafArraysOf lists the memory arrays a store of type t may touch.
func (ex *Exec) leafArraysOf(t types.Type, out map[string]bool, seen map[string]bool) {
	switch u := t.Underlying().(type) {
	case *types.Struct:
		k := typeKey(t)
		if seen[k] {
			return
		}
		seen[k] = true
		for i := 0; i < u.NumFields(); i++ {
			ex.leafArraysOf(u.Field(i).Type(), out, seen)
		}
	case *types.Array:
		ex.leafArraysOf(u.Elem(), out, seen)
	default:
		out[ex.leafArray(t)] = true
	}
}

// ---- maps ----

func (ex *Exec) mapArrays(mt *types.Map) (has, val string, ks, vs Sort) {
	ks = ex.D.sortOf(mt.Key())
	vs = ex.D.sortOf(mt.Elem())
	has = "MH_" + sortID(ks)
	val = "MV_" + sortID(ks) + "_" + sortID(vs)
	ex.mapKeySort[has] = ks
	ex.mapKeySort[val] = ks
	if isPointerLike(mt.Elem()) {
		ex.mapPtrValued[val] = true
	}
	if _, isSlice := mt.Elem().Underlying().(*types.Slice); isSlice {
		ex.mapSliceValued[val] = true
	}
	ex.arraySort(has, Sort(fmt.Sprintf("(Array Int (Array %s Bool))", ks)))
	ex.arraySort(val, Sort(fmt.Sprintf("(Array Int (Array %s %s))", ks, vs)))
	ex.arraySort("ML", "(Array Int Int)")
	return
}

func (ex *Exec) mapHas(m *MemState, mt *types.Map, ref, key string) string {
	has, _, _, _ := ex.mapArrays(mt)
	return fmt.Sprintf("(select (select %s %s) %s)", ex.memGet(m, has), ref, key)
}

func (ex *Exec) mapVal(m *MemState, mt *types.Map, ref, key string) string {
	_, val, _, _ := ex.mapArrays(mt)
	return fmt.Sprintf("(select (select %s %s) %s)", ex.memGet(m, val), ref, key)
}

func (ex *Exec) mapLen(m *MemState, ref string) string {
	ex.arraySort("ML", "(Array Int Int)")
	return fmt.Sprintf("(select %s %s)", ex.memGet(m, "ML"), ref)
}

func (ex *Exec) mapUpdate(m *MemState, mt *types.Map, ref, key, v string) {
	has, val, _, _ := ex.mapArrays(mt)
	h := ex.memGet(m, has)
	vv := ex.memGet(m, val)
	l := ex.memGet(m, "ML")
	had := fmt.Sprintf("(select (select %s %s) %s)", h, ref, key)
	ex.memSet(m, "ML", fmt.Sprintf("(store %s %s (ite %s (select %s %s) (+ (select %s %s) 1)))", l, ref, had, l, ref, l, ref))
	ex.memSet(m, has, fmt.Sprintf("(store %s %s (store (select %s %s) %s true))", h, ref, h, ref, key))
	ex.memSet(m, val, fmt.Sprintf("(store %s %s (store (select %s %s) %s %s))", vv, ref, vv, ref, key, v))
}

func (ex *Exec) mapDelete(m *MemState, mt *types.Map, ref, key string) {
	has, _, _, _ := ex.mapArrays(mt)
	h := ex.memGet(m, has)
	l := ex.memGet(m, "ML")
	had := fmt.Sprintf("(select (select %s %s) %s)", h, ref, key)
	ex.emit("(assert (=> %s (>= (select %s %s) 1)))", had, l, ref) // a map holding a key has at least one entry
	ex.memSet(m, "ML", fmt.Sprintf("(store %s %s (ite %s (- (select %s %s) 1) (select %s %s)))", l, ref, had, l, ref, l, ref))
	ex.memSet(m, has, fmt.Sprintf("(store %s %s (store (select %s %s) %s false))", h, ref, h, ref, key))
}

// ---- model fields ----

func (ex *Exec) modelArray(name string) (string, *ModelDecl) {
	md := ex.S.Models[name]
	if md == nil {
		return "", nil
	}
	an := "F_" + name
	ex.arraySort(an, md.arraySort())
	return an, md
}
