package main

import (
	"fmt"
	"strings"
	"unicode"
)

// ---- contract expression AST ----

type Expr interface{}

type ELit struct{ Kind, Val string } // int str bool nil
type EIdent struct{ Name string }
type EUn struct {
	Op string
	X  Expr
}
type EBin struct {
	Op   string
	X, Y Expr
}
type ESel struct {
	X    Expr
	Name string
}
type EIdx struct{ X, I Expr }
type EUpd struct{ X, I, V Expr }
type ESlc struct{ X, Lo, Hi Expr }
type ECall struct {
	Fn   string
	Args []Expr
}
type Binder struct{ Name, Type string }
type EQuant struct {
	Forall bool
	Vars   []Binder
	Body   Expr
	Pats   []Expr
}
type EIte struct{ C, A, B Expr }

// ---- tokenizer ----

type tok struct {
	k string // id num str op eof
	v string
}

func lex(s string) ([]tok, error) {
	var ts []tok
	i := 0
	ops := []string{"<==>", "==>", "::", ":=", "==", "!=", "<=", ">=", "&&", "||", "..", "(", ")", "[", "]", ",", ".", ":", "!", "<", ">", "+", "-", "*", "/", "%", "&", "{", "}", "|", "?"}
	for i < len(s) {
		c := s[i]
		if c == ' ' || c == '\t' || c == '\n' || c == '\r' {
			i++
			continue
		}
		if c == '"' {
			j := i + 1
			var b strings.Builder
			for j < len(s) && s[j] != '"' {
				if s[j] == '\\' && j+1 < len(s) {
					switch s[j+1] {
					case 'n':
						b.WriteByte('\n')
					case 't':
						b.WriteByte('\t')
					case 'x':
						if j+3 < len(s) {
							var v byte
							fmt.Sscanf(s[j+2:j+4], "%02x", &v)
							b.WriteByte(v)
							j += 2
						}
					default:
						b.WriteByte(s[j+1])
					}
					j += 2
					continue
				}
				b.WriteByte(s[j])
				j++
			}
			if j >= len(s) {
				return nil, fmt.Errorf("unterminated string")
			}
			ts = append(ts, tok{"str", b.String()})
			i = j + 1
			continue
		}
		if unicode.IsLetter(rune(c)) || c == '_' || c == '$' {
			j := i
			for j < len(s) && (unicode.IsLetter(rune(s[j])) || unicode.IsDigit(rune(s[j])) || s[j] == '_' || s[j] == '$') {
				j++
			}
			ts = append(ts, tok{"id", s[i:j]})
			i = j
			continue
		}
		if unicode.IsDigit(rune(c)) {
			j := i
			for j < len(s) && unicode.IsDigit(rune(s[j])) {
				j++
			}
			ts = append(ts, tok{"num", s[i:j]})
			i = j
			continue
		}
		matched := false
		for _, op := range ops {
			if strings.HasPrefix(s[i:], op) {
				ts = append(ts, tok{"op", op})
				i += len(op)
				matched = true
				break
			}
		}
		if !matched {
			return nil, fmt.Errorf("bad character %q at %d in %q", c, i, s)
		}
	}
	ts = append(ts, tok{"eof", ""})
	return ts, nil
}

type parser struct {
	ts  []tok
	pos int
	src string
}

func parseExpr(s string) (e Expr, err error) {
	ts, err := lex(s)
	if err != nil {
		return nil, err
	}
	p := &parser{ts: ts, src: s}
	defer func() {
		if r := recover(); r != nil {
			if pe, ok := r.(parseErr); ok {
				err = fmt.Errorf("%s in %q", string(pe), s)
				return
			}
			panic(r)
		}
	}()
	e = p.expr(0)
	if p.peek().k != "eof" {
		p.fail("unexpected %q", p.peek().v)
	}
	return e, nil
}

type parseErr string

func (p *parser) fail(f string, a ...any) { panic(parseErr(fmt.Sprintf(f, a...))) }
func (p *parser) peek() tok               { return p.ts[p.pos] }
func (p *parser) next() tok               { t := p.ts[p.pos]; p.pos++; return t }
func (p *parser) isOp(v string) bool      { t := p.peek(); return t.k == "op" && t.v == v }
func (p *parser) isID(v string) bool      { t := p.peek(); return t.k == "id" && t.v == v }
func (p *parser) expectOp(v string) {
	if !p.isOp(v) {
		p.fail("expected %q, got %q", v, p.peek().v)
	}
	p.pos++
}

var binPrec = map[string]int{"<==>": 1, "==>": 2, "||": 3, "&&": 4, "==": 5, "!=": 5, "<": 5, "<=": 5, ">": 5, ">=": 5, "in": 5, "+": 6, "-": 6, "*": 7, "/": 7, "%": 7}

func (p *parser) expr(min int) Expr {
	lhs := p.unary()
	for {
		t := p.peek()
		var op string
		if t.k == "op" {
			op = t.v
		} else if t.k == "id" && t.v == "in" {
			op = "in"
		} else {
			return lhs
		}
		prec, ok := binPrec[op]
		if !ok || prec < min {
			return lhs
		}
		p.pos++
		var rhs Expr
		if op == "==>" {
			rhs = p.expr(prec) // right assoc
		} else {
			rhs = p.expr(prec + 1)
		}
		// chained comparison a <= b < c
		if prec == 5 {
			if b, ok := lhs.(*EBin); ok && binPrec[b.Op] == 5 && b.Op != "==" && b.Op != "!=" && op != "==" && op != "!=" && op != "in" {
				lhs = &EBin{"&&", lhs, &EBin{op, b.Y, rhs}}
				continue
			}
		}
		lhs = &EBin{op, lhs, rhs}
	}
}

func (p *parser) unary() Expr {
	t := p.peek()
	if t.k == "op" && (t.v == "!" || t.v == "-" || t.v == "&" || t.v == "*") {
		p.pos++
		return &EUn{t.v, p.unary()}
	}
	if t.k == "id" && (t.v == "forall" || t.v == "exists") {
		p.pos++
		q := &EQuant{Forall: t.v == "forall"}
		for {
			n := p.next()
			if n.k != "id" {
				p.fail("binder name expected")
			}
			ty := p.next()
			if ty.k != "id" {
				p.fail("binder type expected")
			}
			q.Vars = append(q.Vars, Binder{n.v, ty.v})
			if p.isOp(",") {
				p.pos++
				continue
			}
			break
		}
		p.expectOp("::")
		if p.isOp("{") { // trigger patterns { e, e }
			p.pos++
			for {
				q.Pats = append(q.Pats, p.expr(0))
				if p.isOp(",") {
					p.pos++
					continue
				}
				break
			}
			p.expectOp("}")
		}
		q.Body = p.expr(0)
		return q
	}
	if t.k == "id" && t.v == "if" {
		p.pos++
		c := p.expr(0)
		if !p.isID("then") {
			p.fail("expected then")
		}
		p.pos++
		a := p.expr(0)
		if !p.isID("else") {
			p.fail("expected else")
		}
		p.pos++
		b := p.expr(0)
		return &EIte{c, a, b}
	}
	return p.postfix(p.primary())
}

func (p *parser) primary() Expr {
	t := p.next()
	switch t.k {
	case "num":
		return &ELit{"int", t.v}
	case "str":
		return &ELit{"str", t.v}
	case "id":
		switch t.v {
		case "true", "false":
			return &ELit{"bool", t.v}
		case "nil":
			return &ELit{"nil", ""}
		}
		if p.isOp("(") {
			p.pos++
			var args []Expr
			if !p.isOp(")") {
				for {
					args = append(args, p.expr(0))
					if p.isOp(",") {
						p.pos++
						continue
					}
					break
				}
			}
			p.expectOp(")")
			return &ECall{t.v, args}
		}
		return &EIdent{t.v}
	case "op":
		if t.v == "(" {
			e := p.expr(0)
			p.expectOp(")")
			return e
		}
	}
	p.fail("unexpected %q", t.v)
	return nil
}

func (p *parser) postfix(e Expr) Expr {
	for {
		switch {
		case p.isOp("."):
			p.pos++
			n := p.next()
			if n.k != "id" {
				p.fail("field name expected")
			}
			e = &ESel{e, n.v}
		case p.isOp("["):
			p.pos++
			if p.isOp(":") {
				p.pos++
				hi := p.expr(0)
				p.expectOp("]")
				e = &ESlc{e, nil, hi}
				continue
			}
			i := p.expr(0)
			if p.isOp(":=") {
				p.pos++
				v := p.expr(0)
				p.expectOp("]")
				e = &EUpd{e, i, v}
				continue
			}
			if p.isOp(":") {
				p.pos++
				var hi Expr
				if !p.isOp("]") {
					hi = p.expr(0)
				}
				p.expectOp("]")
				e = &ESlc{e, i, hi}
				continue
			}
			p.expectOp("]")
			e = &EIdx{e, i}
		default:
			return e
		}
	}
}

func exprString(e Expr) string {
	switch x := e.(type) {
	case *ELit:
		if x.Kind == "str" {
			return fmt.Sprintf("%q", x.Val)
		}
		if x.Kind == "nil" {
			return "nil"
		}
		return x.Val
	case *EIdent:
		return x.Name
	case *EUn:
		return x.Op + exprString(x.X)
	case *EBin:
		return "(" + exprString(x.X) + " " + x.Op + " " + exprString(x.Y) + ")"
	case *ESel:
		return exprString(x.X) + "." + x.Name
	case *EIdx:
		return exprString(x.X) + "[" + exprString(x.I) + "]"
	case *EUpd:
		return exprString(x.X) + "[" + exprString(x.I) + " := " + exprString(x.V) + "]"
	case *ESlc:
		return exprString(x.X) + "[..]"
	case *ECall:
		var as []string
		for _, a := range x.Args {
			as = append(as, exprString(a))
		}
		return x.Fn + "(" + strings.Join(as, ", ") + ")"
	case *EQuant:
		q := "exists"
		if x.Forall {
			q = "forall"
		}
		return q + " ... :: " + exprString(x.Body)
	case *EIte:
		return "if " + exprString(x.C) + " then " + exprString(x.A) + " else " + exprString(x.B)
	}
	return "?"
}
