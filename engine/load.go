package main

import (
	"fmt"
	"go/token"
	"go/types"
	"os"
	"sort"
	"strings"
	"sync"

	"golang.org/x/tools/go/packages"
	"golang.org/x/tools/go/ssa"
	"golang.org/x/tools/go/ssa/ssautil"
)

// Program is the loaded SSA program of /repo (non-test code, build tag verif).
type Program struct {
	Fset  *token.FileSet
	Prog  *ssa.Program
	Pkgs  map[string]*ssa.Package // by import path (all, incl. deps)
	PPkgs map[string]*packages.Package
	Funcs map[string]*ssa.Function // by canonical name, in-repo packages only (incl. anon funcs and methods)
	Root  string
}

// module roots inside the workspace: package path prefix -> directory
var repoPrefixes = []string{"package-operator.run"}

func inRepo(path string) bool {
	for _, p := range repoPrefixes {
		if path == p || strings.HasPrefix(path, p+"/") {
			return true
		}
	}
	return false
}

func loadProgram(root string, patterns []string) (*Program, error) {
	cfg := &packages.Config{
		Mode:       packages.LoadAllSyntax,
		Dir:        root,
		BuildFlags: []string{"-tags=verif"},
		Env:        os.Environ(),
	}
	pkgs, err := packages.Load(cfg, patterns...)
	if err != nil {
		return nil, err
	}
	nerr := 0
	packages.Visit(pkgs, nil, func(p *packages.Package) {
		for _, e := range p.Errors {
			if inRepo(p.PkgPath) {
				fmt.Fprintln(os.Stderr, "load error:", e)
				nerr++
			}
		}
	})
	if nerr > 0 {
		return nil, fmt.Errorf("%d load errors in /repo packages", nerr)
	}
	prog, _ := ssautil.AllPackages(pkgs, ssa.InstantiateGenerics|ssa.GlobalDebug)
	prog.Build()
	P := &Program{Prog: prog, Pkgs: map[string]*ssa.Package{}, PPkgs: map[string]*packages.Package{}, Funcs: map[string]*ssa.Function{}, Root: root}
	if len(pkgs) > 0 {
		P.Fset = pkgs[0].Fset
	}
	packages.Visit(pkgs, nil, func(p *packages.Package) { P.PPkgs[p.PkgPath] = p })
	for _, sp := range prog.AllPackages() {
		P.Pkgs[sp.Pkg.Path()] = sp
	}
	for fn := range ssautil.AllFunctions(prog) {
		if fn.Pkg == nil && fn.Origin() == nil {
			// wrappers/bound thunks: keep those whose object is in repo
		}
		pp := funcPkgPath(fn)
		if !inRepo(pp) {
			continue
		}
		name := canonName(fn)
		if old, ok := P.Funcs[name]; ok && old != fn {
			// prefer non-synthetic
			if old.Synthetic == "" {
				continue
			}
		}
		P.Funcs[name] = fn
	}
	return P, nil
}

func funcPkgPath(fn *ssa.Function) string {
	if fn.Pkg != nil {
		return fn.Pkg.Pkg.Path()
	}
	if o := fn.Origin(); o != nil && o.Pkg != nil {
		return o.Pkg.Pkg.Path()
	}
	if fn.Object() != nil && fn.Object().Pkg() != nil {
		return fn.Object().Pkg().Path()
	}
	if p := fn.Parent(); p != nil {
		return funcPkgPath(p)
	}
	return ""
}

// canonName gives "pkgpath.Func", "pkgpath.(*T).M", "pkgpath.(T).M", "pkgpath.Func$1".
func canonName(fn *ssa.Function) string {
	if fn.Parent() != nil {
		// anonymous function: parent name + $n (ssa already names them Parent$n)
		return canonName(fn.Parent()) + fn.Name()[strings.LastIndex(fn.Name(), "$"):]
	}
	pp := funcPkgPath(fn)
	if fn.Signature.Recv() != nil {
		rt := fn.Signature.Recv().Type()
		ptr := ""
		if p, ok := rt.(*types.Pointer); ok {
			rt = p.Elem()
			ptr = "*"
		}
		tn := types.TypeString(rt, func(*types.Package) string { return "" })
		// strip type args for generics receivers
		name := fn.Name()
		return fmt.Sprintf("%s.(%s%s).%s", pp, ptr, tn, name)
	}
	n := fn.Name()
	if o := fn.Origin(); o != nil {
		n = o.Name()
	}
	return pp + "." + n
}

// shortName strips the common repo prefix for display.
func shortName(s string) string {
	s = strings.TrimPrefix(s, "package-operator.run/")
	return s
}

func sortedKeys[V any](m map[string]V) []string {
	ks := make([]string, 0, len(m))
	for k := range m {
		ks = append(ks, k)
	}
	sort.Strings(ks)
	return ks
}

func posOf(P *Program, p token.Pos) string {
	if !p.IsValid() {
		return "?"
	}
	pos := P.Fset.Position(p)
	return fmt.Sprintf("%s:%d", strings.TrimPrefix(pos.Filename, P.Root+"/"), pos.Line)
}

var funcIndexCache = map[*Program]map[string]*ssa.Function{}
var funcIndexMu sync.Mutex

// ssaFuncIndex indexes all functions of the program (incl. dependencies) by canonical name.
func ssaFuncIndex(P *Program) map[string]*ssa.Function {
	funcIndexMu.Lock()
	defer funcIndexMu.Unlock()
	if m, ok := funcIndexCache[P]; ok {
		return m
	}
	m := map[string]*ssa.Function{}
	for fn := range ssautil.AllFunctions(P.Prog) {
		m[canonNameAny(fn)] = fn
	}
	funcIndexCache[P] = m
	return m
}
