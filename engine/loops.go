package main

import (
	"sync"
	"fmt"
	"strings"
	"go/token"
	"go/types"
	"sort"

	"golang.org/x/tools/go/ssa"
)

// assignedInLoop computes the state arrays possibly modified inside the loop; all=true when unknown.
func (fr *Frame) assignedInLoop(li *loopInfo) (map[string]bool, bool) {
	ex := fr.ex
	out := map[string]bool{}
	all := false
	var blocks []*ssa.BasicBlock
	for b := range li.body {
		blocks = append(blocks, b)
	}
	sort.Slice(blocks, func(i, j int) bool { return blocks[i].Index < blocks[j].Index })
	if ex.topContract != nil {
		// ghost assignments attached to call sites ("at/after callee ghost m() := e") may run in the loop body: at a
		// matching call, or anywhere inside a /repo callee that may be inlined
		for _, s := range ex.topContract.Sites {
			if s.Ghost == nil || out["F_"+s.Ghost.Model] {
				continue
			}
			if an, _ := ex.modelArray(s.Ghost.Model); an == "" {
				continue
			}
			pat := s.Callee
			if j := strings.LastIndex(pat, ":"); j >= 0 {
				pat = pat[j+1:]
			}
			if fr.siteReachable(blocks, pat, 0, map[*ssa.Function]bool{}) {
				out["F_"+s.Ghost.Model] = true
			}
		}
	}
	for _, b := range blocks {
		for _, in := range b.Instrs {
			switch x := in.(type) {
			case *ssa.Store:
				et := x.Addr.Type().Underlying().(*types.Pointer).Elem()
				ex.leafArraysOf(et, out, map[string]bool{})
			case *ssa.Alloc:
				et := x.Type().Underlying().(*types.Pointer).Elem()
				ex.leafArraysOf(et, out, map[string]bool{})
			case *ssa.MapUpdate:
				mt := x.Map.Type().Underlying().(*types.Map)
				has, val, _, _ := ex.mapArrays(mt)
				out[has], out[val], out["ML"] = true, true, true
			case *ssa.MakeMap:
				mt := x.Type().Underlying().(*types.Map)
				has, _, _, _ := ex.mapArrays(mt)
				out[has], out["ML"] = true, true
			case *ssa.MakeSlice:
				ex.leafArraysOf(x.Type().Underlying().(*types.Slice).Elem(), out, map[string]bool{})
			case *ssa.MakeChan, *ssa.Send:
				ex.arraySort("CH_cap", "(Array Int Int)")
				ex.arraySort("CH_queued", "(Array Int Int)")
				out["CH_cap"], out["CH_queued"] = true, true
			case *ssa.Next:
				if it := fr.iters[x.Iter]; it != nil && it.isMap {
					out[it.visited] = true
					if it.count != "" {
						out[it.count] = true
					}
				}
			case *ssa.Call:
				a, al := fr.callAssigns(&x.Call)
				if al {
					all = true
					ex.note("loop %d of %s: call of %s has an unknown frame", li.ord, fr.fn.Name(), shortName(fr.calleeDisplayQuick(&x.Call)))
				}
				for k := range a {
					out[k] = true
				}
			case *ssa.Defer, *ssa.Go:
				all = true
			case *ssa.UnOp:
				if x.Op == token.ARROW {
					out["CH_queued"] = true
				}
			}
		}
	}
	return out, all
}

// siteReachable: some call in the blocks matches the site pattern, directly or inside a /repo function that may be
// inlined there (function values count as possibly matching).
func (fr *Frame) siteReachable(blocks []*ssa.BasicBlock, pat string, depth int, seen map[*ssa.Function]bool) bool {
	for _, b := range blocks {
		for _, in := range b.Instrs {
			cc := callCommonOf(in)
			if cc == nil {
				continue
			}
			if _, isB := cc.Value.(*ssa.Builtin); isB {
				continue
			}
			if cc.IsInvoke() {
				if siteMatches(fr.calleeDisplayQuick(cc), pat) {
					return true
				}
				continue
			}
			fn := cc.StaticCallee()
			if fn == nil {
				return true // function value: may be a closure that is inlined
			}
			if siteMatches(fr.calleeDisplayQuick(cc), pat) {
				return true
			}
			if len(fn.Blocks) > 0 && fn.Pkg != nil && inRepo(fn.Pkg.Pkg.Path()) && !seen[fn] {
				if depth >= 4 {
					return true
				}
				seen[fn] = true
				if fr.siteReachable(fn.Blocks, pat, depth+1, seen) {
					return true
				}
			}
			for _, a := range cc.Args {
				if mc, ok := a.(*ssa.MakeClosure); ok {
					if cf, ok := mc.Fn.(*ssa.Function); ok && !seen[cf] {
						seen[cf] = true
						if fr.siteReachable(cf.Blocks, pat, depth+1, seen) {
							return true
						}
					}
				}
			}
		}
	}
	return false
}

// enterLoop: check invariants on entry, havoc loop-modified state, assume invariants.
func (fr *Frame) enterLoop(li *loopInfo, head *ssa.BasicBlock) {
	ex := fr.ex
	// 1. compute entry phi values
	var entryPreds []*ssa.BasicBlock
	for _, p := range head.Preds {
		if !(li.body[p] && isBackEdge(p, head)) {
			entryPreds = append(entryPreds, p)
		}
	}
	entryPhi := map[*ssa.Phi]Val{}
	for _, in := range head.Instrs {
		phi, ok := in.(*ssa.Phi)
		if !ok {
			break
		}
		s := ex.D.sortOf(phi.Type())
		entryPhi[phi] = Val{T: ex.define(phi.Name()+"_entry", s, fr.phiFromEdges(phi, entryPreds)), S: s, G: phi.Type()}
	}
	entryMem := fr.curMem
	li.entryMemForOld = entryMem
	li.entryPhi = entryPhi
	li.frameBase = ex.lastRef
	// 2. invariant on entry
	invs := fr.loopInvs(li)
	for i, inv := range invs {
		fr.withPhis(entryPhi, func() {
			ec := fr.evalCtx(entryMem, fr.entryMem)
			ec.loop = li
			ec.loopEntry = entryMem
			ec.goal = true
			g, err := ec.tryBool(inv.E)
			if err != nil {
				if inv.Optional {
					dropInvariant(fr.fn, li.ord, inv.Line)
					ex.optionalDropped = true
					ex.note("optional invariant of loop %d does not apply to this code (%s): dropped", li.ord, err.Error())
					return
				}
				ex.failOb("contract-typechecks", fmt.Sprintf("loop%d-inv%d", li.ord, i+1), err.Error()+" in "+inv.Src, head.Instrs[0].Pos())
				return
			}
			if inv.Optional {
				ex.optionalOb = fmt.Sprintf("%s|loop%d|%s", canonName(fr.fn), li.ord, inv.Line)
			}
			ex.oblige("inv-entry", fmt.Sprintf("loop%d#%d", li.ord, i+1), g, fr.curReach, "loop invariant holds on entry: "+inv.Src, loopPos(li), inv.Prop)
			ex.optionalOb = ""
		})
	}
	// 3. havoc
	li.phiHavoc = map[*ssa.Phi]Val{}
	for phi := range entryPhi {
		s := ex.D.sortOf(phi.Type())
		hv := Val{T: ex.fresh(phi.Name()+"_loop", s), S: s, G: phi.Type()}
		li.phiHavoc[phi] = hv
		ex.typeAssume(hv, phi.Type(), fr.curReach, false)
	}
	assigned, all := fr.assignedInLoop(li)
	if li.spec != nil && li.spec.Assigns != nil {
		// explicit loop frame overrides the computed one
		nm := fr.curMem.clone()
		fr.curMem = nm
		ec := fr.evalCtx(entryMem, fr.entryMem)
		fr.havocTargets(nm, li.spec.Assigns, ec)
	} else if all {
		fr.curMem = ex.newMem()
		fr.curMem.lost = true
		ex.note("loop %d of %s contains calls with unknown frame: all state havocked at loop head", li.ord, fr.fn.Name())
	} else {
		nm := fr.curMem.clone()
		if assigned["*lib"] {
			nm = ex.havocLib(nm)
			delete(assigned, "*lib")
			delete(assigned, "*mem")
			for k := range assigned {
				if _, isModel := ex.S.Models[strings.TrimPrefix(k, "F_")]; !(isModel && ex.S.Models[strings.TrimPrefix(k, "F_")].Ghost) {
					delete(assigned, k)
				}
			}
		}
		if assigned["*mem"] {
			ex.havocGoMemory(nm)
			delete(assigned, "*mem")
		}
		var ks []string
		for k := range assigned {
			ks = append(ks, k)
		}
		sort.Strings(ks)
		for _, k := range ks {
			ex.memHavoc(nm, k)
		}
		fr.curMem = nm
	}
	// local cells that the loop body never stores to keep their pre-loop value
	{
		stored := map[*ssa.Alloc]bool{}
		for b := range li.body {
			for _, in := range b.Instrs {
				if st, ok := in.(*ssa.Store); ok {
					if al := rootAlloc(st.Addr); al != nil {
						stored[al] = true
					}
				}
			}
		}
		fr.preserveCells(entryMem, stored)
	}
	// automatic invariants for range-over-slice index phis
	for phi, hv := range li.phiHavoc {
		if phi.Comment == "rangeindex" {
			ex.assume(fmt.Sprintf("(>= %s (- 1))", hv.T), fr.curReach)
		} else if isCountingPhi(li, phi) {
			// a counter that starts at 0 and is incremented by 1 on every back edge is never negative
			ex.assume(fmt.Sprintf("(>= %s 0)", hv.T), fr.curReach)
		}
	}
	// 4. assume invariants (phis are now the havocked values)
	for _, inv := range invs {
		ec := fr.evalCtx(fr.curMem, fr.entryMem)
		ec.loop = li
		ec.loopEntry = entryMem
		fr.vals2phis(li)
		g, err := ec.tryBool(inv.E)
		if err != nil {
			continue
		}
		ex.assume(g, fr.curReach)
	}
}

// vals2phis installs havocked phi values into fr.vals (so that name resolution sees them).
func (fr *Frame) vals2phis(li *loopInfo) {
	for phi, hv := range li.phiHavoc {
		fr.vals[phi] = hv
	}
}

func (fr *Frame) withPhis(m map[*ssa.Phi]Val, f func()) {
	saved := map[*ssa.Phi]*Val{}
	for phi, v := range m {
		if old, ok := fr.vals[phi]; ok {
			o := old
			saved[phi] = &o
		} else {
			saved[phi] = nil
		}
		fr.vals[phi] = v
	}
	defer func() {
		for phi, o := range saved {
			if o == nil {
				delete(fr.vals, phi)
			} else {
				fr.vals[phi] = *o
			}
		}
	}()
	f()
}

func (fr *Frame) loopInvs(li *loopInfo) []Clause {
	if li.spec == nil {
		return nil
	}
	var out []Clause
	for i, c := range li.spec.Invs {
		if c.Optional && droppedInvariants[optKey(fr.fn, li.ord, i)] {
			continue // optional invariant found not to hold in an earlier round
		}
		if clauseApplies(c, fr.ex.Prop) {
			c2 := c
			c2.Line = fmt.Sprintf("%d", i) // index within the loop spec (names the optional clause)
			out = append(out, c2)
		}
	}
	return out
}

// droppedInvariants: optional loop invariants ("invariant?") that did not type-check or were not inductive in an earlier
// round of this run; they are left out when the function is verified again (Houdini-style).
var (
	droppedInvariants   = map[string]bool{}
	droppedInvariantsMu sync.Mutex
)

func optKey(fn *ssa.Function, loopOrd, idx int) string {
	return fmt.Sprintf("%s|loop%d|%d", canonName(fn), loopOrd, idx)
}

func dropInvariant(fn *ssa.Function, loopOrd int, idxStr string) {
	droppedInvariantsMu.Lock()
	defer droppedInvariantsMu.Unlock()
	droppedInvariants[fmt.Sprintf("%s|loop%d|%s", canonName(fn), loopOrd, idxStr)] = true
}

func (fr *Frame) checkBackEdge(li *loopInfo, from *ssa.BasicBlock) {
	ex := fr.ex
	head := li.head
	c := fr.edgeCond(from, head)
	if c == "false" {
		return
	}
	backPhi := map[*ssa.Phi]Val{}
	for _, in := range head.Instrs {
		phi, ok := in.(*ssa.Phi)
		if !ok {
			break
		}
		s := ex.D.sortOf(phi.Type())
		backPhi[phi] = Val{T: ex.define(phi.Name()+"_back", s, fr.phiFromEdges(phi, []*ssa.BasicBlock{from})), S: s, G: phi.Type()}
	}
	mem := fr.memOut[from]
	for i, inv := range fr.loopInvs(li) {
		fr.withPhis(backPhi, func() {
			ec := fr.evalCtx(mem, fr.entryMem)
			ec.loop = li
			ec.loopEntry = li.entryMemForOld
			ec.goal = true
			g, err := ec.tryBool(inv.E)
			if err != nil {
				if inv.Optional {
					dropInvariant(fr.fn, li.ord, inv.Line)
					ex.optionalDropped = true
					return
				}
				ex.failOb("contract-typechecks", fmt.Sprintf("loop%d-inv%d-back", li.ord, i+1), err.Error()+" in "+inv.Src, head.Instrs[0].Pos())
				return
			}
			if inv.Optional {
				ex.optionalOb = fmt.Sprintf("%s|loop%d|%s", canonName(fr.fn), li.ord, inv.Line)
			}
			ex.oblige("inv-preserved", fmt.Sprintf("loop%d#%d", li.ord, i+1), g, c, "loop invariant preserved: "+inv.Src, loopPos(li), inv.Prop)
			ex.optionalOb = ""
		})
	}
}

// ---- range / next ----

func (fr *Frame) rangeInstr(x *ssa.Range) {
	ex := fr.ex
	switch t := x.X.Type().Underlying().(type) {
	case *types.Map:
		ex.cnt++
		has, _, ks, _ := ex.mapArrays(t)
		vis := fmt.Sprintf("IT%d_visited", ex.cnt)
		ex.arraySort(vis, Sort(fmt.Sprintf("(Array %s Bool)", ks)))
		m := fr.val(x.X).T
		ex.memSet(fr.curMem, vis, fmt.Sprintf("((as const (Array %s Bool)) false)", ks))
		eh := ex.define("entryhas", Sort(fmt.Sprintf("(Array %s Bool)", ks)), fmt.Sprintf("(select %s %s)", ex.memGet(fr.curMem, has), m))
		cntName := fmt.Sprintf("IT%d_count", ex.cnt)
		ex.arraySort(cntName, SInt)
		ex.memSet(fr.curMem, cntName, "0")
		fr.iters[x] = &iterInfo{isMap: true, mt: t, mref: m, visited: vis, entryHas: eh, count: cntName, rangeInstr: x}
	case *types.Basic:
		fr.iters[x] = &iterInfo{str: fr.val(x.X)}
		panic(engineErr("range over string not supported"))
	default:
		panic(engineErr("range over " + x.X.Type().String()))
	}
}

func (fr *Frame) next(x *ssa.Next) {
	ex := fr.ex
	it := fr.iters[x.Iter]
	if it == nil || !it.isMap {
		panic(engineErr("next on unsupported iterator"))
	}
	mt := it.mt
	ks, vs := ex.D.sortOf(mt.Key()), ex.D.sortOf(mt.Elem())
	ok := ex.fresh(x.Name()+"_ok", SBool)
	k := ex.fresh(x.Name()+"_k", ks)
	vis := ex.memGet(fr.curMem, it.visited)
	// if ok: k is a present, unvisited key
	ex.assume(implies(ok, and(ex.mapHas(fr.curMem, mt, it.mref, k), fmt.Sprintf("(not (select %s %s))", vis, k))), fr.curReach)
	// if !ok: every key present now that was present at loop start has been visited
	ex.assume(implies(not(ok), fmt.Sprintf("(forall ((kk %s)) (! (=> (and %s (select %s kk)) (select %s kk)) :pattern ((select %s kk))))",
		ks, ex.mapHas(fr.curMem, mt, it.mref, "kk"), it.entryHas, vis, vis)), fr.curReach)
	v := ex.define(x.Name()+"_v", vs, ex.mapVal(fr.curMem, mt, it.mref, k))
	ex.memSet(fr.curMem, it.visited, ite(ok, fmt.Sprintf("(store %s %s true)", vis, k), vis))
	if it.count != "" {
		cnt := ex.memGet(fr.curMem, it.count)
		// when the loop does not change the map, the number of keys produced at exit is the length of the map
		if fr.mapUnchangedInLoopOf(x) {
			has, _, _, _ := ex.mapArrays(mt)
			_ = has
			ex.assume(implies(not(ok), fmt.Sprintf("(= %s (select %s %s))", cnt, ex.memGet(fr.curMem, "ML"), it.mref)), fr.curReach)
			ex.assume(implies(ok, fmt.Sprintf("(< %s (select %s %s))", cnt, ex.memGet(fr.curMem, "ML"), it.mref)), fr.curReach)
		}
		ex.memSet(fr.curMem, it.count, ite(ok, fmt.Sprintf("(+ %s 1)", cnt), cnt))
	}
	fr.tuples[x] = []Val{{T: ok, S: SBool, G: types.Typ[types.Bool]}, {T: k, S: ks, G: mt.Key()}, {T: v, S: vs, G: mt.Elem()}}
	ex.typeAssume(fr.tuples[x][1], mt.Key(), fr.curReach, false)
	ex.typeAssume(fr.tuples[x][2], mt.Elem(), fr.curReach, false)
}

// ---- defers ----

func (fr *Frame) runDefers() {
	ex := fr.ex
	for i := len(fr.defers) - 1; i >= 0; i-- {
		d := fr.defers[i]
		// the deferred call runs iff the defer statement was executed on this path
		cond := d.cond
		before := fr.curMem
		savedReach := fr.curReach
		fr.curReach = and(savedReach, cond)
		fr.curMem = before.clone()
		fr.call(d.instr, &d.instr.Call)
		after := fr.curMem
		fr.curReach = savedReach
		if d.instr.Block().Dominates(fr.curBlock) {
			fr.curMem = after
		} else {
			fr.curMem = ex.mergeMem([]*MemState{after, before}, []string{cond, "true"})
		}
	}
}

// ---- goroutines and channels (minimal) ----

func (fr *Frame) goStmt(x *ssa.Go) {
	ex := fr.ex
	// site hook: contract may attach "at go#n assert E" clauses; effect of the goroutine itself is not modelled here
	fr.siteClauses(x, &x.Call, "go", nil, nil, nil, false)
	// the spawned function's preconditions must hold at the go statement (they must be stable under interference)
	if fn := x.Call.StaticCallee(); fn != nil {
		ct := ex.S.Contracts[canonNameAny(fn)]
		if ct == nil {
			ct = ex.S.Contracts[shortName(canonNameAny(fn))]
		}
		if ct != nil {
			var args []Val
			for _, a := range x.Call.Args {
				args = append(args, fr.val(a))
			}
			ci := calleeInfo{display: canonNameAny(fn), fn: fn, sig: fn.Signature}
			names := fr.bindParams(ci, ct, args)
			if mc, ok := x.Call.Value.(*ssa.MakeClosure); ok {
				for i, fv := range fn.FreeVars {
					if i < len(mc.Bindings) {
						names[fv.Name()] = fr.val(mc.Bindings[i])
					}
				}
			}
			for i, rq := range ct.Requires {
				if containsStr(modelsIn(rq.E, ex.S), "held") {
					continue // lock ownership is per thread: the new goroutine holds no lock
				}
				ec := fr.evalCtx(fr.curMem, fr.curMem)
				ec.names = names
				ec.goal = true
				g, err := ec.tryBool(rq.E)
				if err != nil {
					ex.failOb("contract-typechecks", "go-pre", err.Error()+" in requires "+rq.Src, x.Pos())
					continue
				}
				ex.oblige("pre", fmt.Sprintf("go-%s.%d", lastSeg(ci.display), i+1), g, fr.curReach, "precondition of the spawned goroutine: "+rq.Src, x.Pos(), rq.Prop)
			}
		}
	}
	ex.note("go statement in %s: goroutine body verified separately (if under contract); no effect assumed at spawn", fr.fn.Name())
}

func (fr *Frame) send(x *ssa.Send) {
	ex := fr.ex
	ex.arraySort("CH_cap", "(Array Int Int)")
	ex.arraySort("CH_queued", "(Array Int Int)")
	ch := fr.val(x.Chan).T
	q := ex.memGet(fr.curMem, "CH_queued")
	cp := ex.memGet(fr.curMem, "CH_cap")
	// non-blocking obligation only when the contract asks (site clause "sink send#n requires nonblocking")
	fr.names["sendchan"] = Val{T: ch, S: SInt}
	fr.names["sendval"] = fr.val(x.X)
	fr.names["nonblocking"] = Val{T: fmt.Sprintf("(< (select %s %s) (select %s %s))", q, ch, cp, ch), S: SBool}
	fr.siteClausesNamed(x, "send", x.Pos())
	ex.memSet(fr.curMem, "CH_queued", fmt.Sprintf("(store %s %s (+ (select %s %s) 1))", q, ch, q, ch))
	ex.arraySort("CH_last_Iface", "(Array Int Int)")
}

func (fr *Frame) recv(x *ssa.UnOp) {
	ex := fr.ex
	ex.arraySort("CH_queued", "(Array Int Int)")
	ch := fr.val(x.X).T
	q := ex.memGet(fr.curMem, "CH_queued")
	ex.memSet(fr.curMem, "CH_queued", fmt.Sprintf("(store %s %s (- (select %s %s) 1))", q, ch, q, ch))
	et := x.X.Type().Underlying().(*types.Chan).Elem()
	s := ex.D.sortOf(et)
	v := Val{T: ex.fresh("recv", s), S: s, G: et}
	if x.CommaOk {
		ok := ex.fresh("recv_ok", SBool)
		fr.tuples[x] = []Val{v, {T: ok, S: SBool, G: types.Typ[types.Bool]}}
		return
	}
	fr.vals[x] = v
	ex.typeAssume(v, et, fr.curReach, false)
}

// isCountingPhi: a loop-head phi of integer type whose entry value is the constant 0 and whose value on every back edge
// is itself plus the constant 1.
func isCountingPhi(li *loopInfo, phi *ssa.Phi) bool {
	if b, isB := phi.Type().Underlying().(*types.Basic); !isB || b.Info()&types.IsInteger == 0 {
		return false
	}
	if len(phi.Edges) < 2 {
		return false
	}
	for i, e := range phi.Edges {
		pred := li.head.Preds[i]
		if li.body[pred] {
			bo, isBin := e.(*ssa.BinOp)
			if !isBin || bo.Op != token.ADD || bo.X != phi {
				return false
			}
			c, isC := bo.Y.(*ssa.Const)
			if !isC || c.Value == nil || c.Value.ExactString() != "1" {
				return false
			}
		} else {
			c, isC := e.(*ssa.Const)
			if !isC || c.Value == nil || c.Value.ExactString() != "0" {
				return false
			}
		}
	}
	return true
}

// mapUnchangedInLoopOf: the loop that contains the Next instruction neither inserts into nor deletes from any map of
// the ranged map's type and calls nothing that could (conservative, syntactic).
func (fr *Frame) mapUnchangedInLoopOf(x *ssa.Next) bool {
	var li *loopInfo
	for _, l := range fr.loops {
		if l.body[x.Block()] && (li == nil || len(l.body) < len(li.body)) {
			li = l
		}
	}
	if li == nil {
		return false
	}
	assigned, all := fr.assignedInLoop(li)
	if all || assigned["*lib"] || assigned["*mem"] {
		return false
	}
	it := fr.iters[x.Iter]
	has, _, _, _ := fr.ex.mapArrays(it.mt)
	return !assigned[has] && !assigned["ML"]
}
