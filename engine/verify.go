package main

import (
	"fmt"
	"go/types"
	"sort"
	"strings"

	"golang.org/x/tools/go/ssa"
)

type FuncReport struct {
	Name     string
	File     string
	Obs      []*Obligation
	Notes    []string
	Unknown  map[string]int
	Rejected string
	Specs    []string
	OptionalDropped bool // an optional invariant did not apply: generate again without it
}

// verifyFunction generates all obligations of one function under contract.
func verifyFunction(P *Program, S *Specs, fn *ssa.Function, ct *Contract, prop string, sweep bool) (rep *FuncReport) {
	ex := newExec(P, S, prop, "contract")
	ex.top = fn
	ex.sweepSafe = sweep
	rep = &FuncReport{Name: shortName(canonName(fn)), File: posOf(P, fn.Pos())}
	defer func() {
		if r := recover(); r != nil {
			msg := ""
			switch x := r.(type) {
			case engineErr:
				msg = string(x)
			case evalErr:
				msg = "contract: " + string(x)
			default:
				panic(r)
			}
			ex.failOb("in-subset", "", "function outside the supported subset: "+msg, fn.Pos())
			ex.finish()
			rep.Obs = ex.obs
			rep.Rejected = msg
			rep.Notes = sortedNotes(ex.notes)
			rep.Unknown = ex.unknownCalls
		}
	}()
	fr := newFrame(ex, fn)
	fr.isTop = true
	fr.contract = ct
	entry := ex.newMem()
	ex.entryEpoch = entry.ep.id
	ex.frozen = entry
	ex.topContract = ct
	ex.topEntry = entry
	ex.sweepOnly = sweep && ct == nil
	// parameters
	for i, p := range fn.Params {
		s := ex.D.sortOf(p.Type())
		v := Val{T: ex.fresh("p_"+p.Name(), s), S: s, G: p.Type()}
		fr.vals[p] = v
		fr.params[p.Name()] = v
		ex.typeAssume(v, p.Type(), "true", true)
		if i == 0 && fn.Signature.Recv() != nil {
			// (the receiver is addressed by its own name in function contracts; "recv" is reserved for library/interface specs)
			if _, isPtr := p.Type().Underlying().(*types.Pointer); isPtr {
				ex.emit("(assert (not (= %s 0)))", v.T) // receivers are non-nil (type invariant, stated assumption)
			}
		}
	}
	for _, fv := range fn.FreeVars {
		s := ex.D.sortOf(fv.Type())
		v := Val{T: ex.fresh("fv_"+fv.Name(), s), S: s, G: fv.Type()}
		fr.freeVars[fv] = v
		fr.params[fv.Name()] = v
		ex.typeAssume(v, fv.Type(), "true", true)
		// captured variables are cells: expose their content under the variable's name is done via localByName
	}
	// global axioms
	for _, ax := range S.Axioms {
		ec := fr.evalCtx(entry, entry)
		g, err := ec.tryBool(ax.E)
		if err != nil {
			if strings.Contains(err.Error(), "unknown package") || strings.Contains(err.Error(), "unknown variable") {
				ex.note("axiom about a package that is not loaded for this check was skipped: %s", ax.Src)
				continue
			}
			ex.failOb("contract-typechecks", "axiom", err.Error()+" in axiom "+ax.Src, fn.Pos())
			continue
		}
		ex.emit("(assert %s)", g)
	}
	// requires
	if ct != nil {
		var reqs []string
		for _, rq := range ct.Requires {
			if !clauseApplies(rq, prop) {
				continue
			}
			ec := fr.evalCtx(entry, entry)
			g, err := ec.tryBool(rq.E)
			if err != nil {
				ex.failOb("contract-typechecks", "requires", err.Error()+" in requires "+rq.Src, fn.Pos())
				continue
			}
			ex.emit("(assert %s)", g)
			reqs = append(reqs, g)
		}
		if !sweep {
			ex.cover("requires", "true", "preconditions and trusted specs are satisfiable", fn.Pos())
		}
	}
	fr.run("true", entry)
	if ct != nil && !sweep && len(fr.returns) > 0 {
		var rs []string
		for _, r := range fr.returns {
			rs = append(rs, r.reach)
		}
		ex.cover("returns-reachable", or(rs...), "some return is reachable under the contract's hypotheses and the callee contracts", fn.Pos())
	}
	// ghost assignments at returns
	if ct != nil && len(ct.Ghosts) > 0 {
		for i := range fr.returns {
			r := &fr.returns[i]
			nm := r.mem.clone()
			for _, g := range ct.Ghosts {
				ec := fr.evalCtx(r.mem, entry)
				names := map[string]Val{}
				bindResultNames(names, fn.Signature, r.results)
				ec.names = names
				an, md := ex.modelArray(g.Model)
				if md == nil {
					ex.failOb("contract-typechecks", "ghost", "unknown model field "+g.Model, fn.Pos())
					continue
				}
				v, err := func() (v Val, err error) {
					defer func() {
						if rr := recover(); rr != nil {
							if e, ok := rr.(evalErr); ok {
								err = fmt.Errorf("%s", string(e))
								return
							}
							panic(rr)
						}
					}()
					return ec.coerce(ec.eval(g.Val.E), md.Ret), nil
				}()
				if err != nil {
					ex.failOb("contract-typechecks", "ghost", err.Error()+" in ghost "+g.Val.Src, fn.Pos())
					continue
				}
				if g.Arg == nil {
					ex.memSet(nm, an, v.T)
				} else {
					row := ec.argFor(ec.eval(g.Arg), md.Params[0])
					ex.memSet(nm, an, fmt.Sprintf("(store %s %s %s)", ex.memGet(nm, an), row.T, v.T))
				}
			}
			r.mem = nm
		}
	}
	// postconditions
	if ct != nil {
		for i, en := range ct.Ensures {
			if !clauseApplies(en, prop) {
				continue
			}
			var parts []string
			bad := false
			for _, r := range fr.returns {
				ec := fr.evalCtx(r.mem, entry)
				names := map[string]Val{}
				bindResultNames(names, fn.Signature, r.results)
				ec.names = names
				ec.goal = true
				g, err := ec.tryBool(en.E)
				if err != nil {
					ex.failOb("contract-typechecks", fmt.Sprintf("ensures%d", i+1), err.Error()+" in ensures "+en.Src, fn.Pos())
					bad = true
					break
				}
				parts = append(parts, implies(r.reach, g))
			}
			if bad {
				continue
			}
			ex.oblige("post", fmt.Sprintf("%d", i+1), and(parts...), "true", "postcondition: "+en.Src, fn.Pos(), en.Prop)
		}
		// frame: a readonly/pure contract must not change state — checked for model fields and memory it could touch
		if ct.Readonly && !ct.Trusted {
			fr.frameObligation(entry)
		} else if ct.HasAssigns && !ct.Trusted {
			fr.assignsObligation(entry, ct)
		}
	}
	// every call-site clause of the contract must have matched a program point (else it silently checks nothing)
	if ct != nil {
		for i, st := range ct.Sites {
			if ex.siteMatched[i] || !clauseApplies(st.Cl, prop) || st.Kind == "never" {
				continue
			}
			if st.Kind == "ghost" && len(st.Cl.Prop) == 0 && st.Ghost != nil {
				// ghost assignments carry no property tag of their own: they apply whenever the function is checked
			}
			if goneTargetMatches(P, st.Callee) {
				ex.note("clause 'at/sink %s#%d' skipped: the function it names existed on the pinned tree but was inlined or removed", st.Callee, st.Ord)
				continue
			}
			ex.failOb("contract-typechecks", fmt.Sprintf("site-unmatched/%s#%d", sanitize(st.Callee), st.Ord),
				fmt.Sprintf("clause 'at/sink %s#%d' of the contract matches no call site, return or loop exit of the function (moved or removed?)", st.Callee, st.Ord), fn.Pos())
		}
	}
	ex.finish()
	rep.Obs = ex.obs
	rep.OptionalDropped = ex.optionalDropped
	rep.Notes = sortedNotes(ex.notes)
	rep.Unknown = ex.unknownCalls
	for k := range ex.usedSpecs {
		rep.Specs = append(rep.Specs, k)
	}
	sort.Strings(rep.Specs)
	return rep
}

func sortedNotes(m map[string]bool) []string {
	var out []string
	for k := range m {
		out = append(out, k)
	}
	sort.Strings(out)
	return out
}

// frameObligation: at every return, every state array known at entry that is caller-visible is unchanged
// on pre-existing locations (root <= allocbase) — for readonly contracts.
func (fr *Frame) frameObligation(entry *MemState) {
	ex := fr.ex
	names := map[string]bool{}
	for _, r := range fr.returns {
		if r.mem.lost || r.mem.memLost {
			ex.oblige("frame", "readonly", "false", r.reach, "readonly function calls something with unknown frame", fr.fn.Pos(), nil)
			return
		}
		for k := range r.mem.arrays {
			names[k] = true
		}
	}
	var ks []string
	for k := range names {
		ks = append(ks, k)
	}
	sort.Strings(ks)
	for _, k := range ks {
		if strings.HasPrefix(k, "IT") {
			continue
		}
		if md := ex.S.Models[strings.TrimPrefix(k, "F_")]; strings.HasPrefix(k, "F_") && md != nil && md.Ghost {
			continue // ghost registers are bookkeeping of the specs, not program state
		}
		var parts []string
		for _, r := range fr.returns {
			a, b := ex.memGet(entry, k), ex.memGet(r.mem, k)
			if a == b {
				continue
			}
			var g string
			md := ex.S.Models[strings.TrimPrefix(k, "F_")]
			if strings.HasPrefix(k, "F_") && (md == nil || len(md.Params) == 0 || md.Params[0].S != SInt) {
				g = fmt.Sprintf("(= %s %s)", a, b)
			} else {
				g = fmt.Sprintf("(forall ((a Int)) (=> (<= (root a) allocbase) (= (select %s a) (select %s a))))", a, b)
			}
			parts = append(parts, implies(r.reach, g))
		}
		if len(parts) > 0 {
			ex.oblige("frame", k, and(parts...), "true", "state "+k+" unchanged (readonly)", fr.fn.Pos(), nil)
		}
	}
}

// assignsObligation: model fields not listed in assigns are unchanged at every return.
func (fr *Frame) assignsObligation(entry *MemState, ct *Contract) {
	ex := fr.ex
	listed := map[string][]AssignTarget{}
	for _, a := range ct.Assigns {
		if a.All {
			return
		}
		if a.Model == "allrows" {
			for _, mn := range sortedKeys(ex.S.Models) {
				if md := ex.S.Models[mn]; len(md.Params) > 0 && md.Params[0].Obj && md.Params[0].Name == "o" {
					listed["F_"+mn] = append(listed["F_"+mn], AssignTarget{Model: mn, Arg: a.Arg})
				}
			}
		} else if a.Model != "" {
			listed["F_"+a.Model] = append(listed["F_"+a.Model], a)
		}
	}
	names := map[string]bool{}
	for _, r := range fr.returns {
		if r.mem.lost {
			ex.oblige("frame", "assigns", "false", r.reach, "function with an assigns clause calls something with unknown frame", fr.fn.Pos(), nil)
			return
		}
		for k := range r.mem.arrays {
			if strings.HasPrefix(k, "F_") {
				names[k] = true
			}
		}
	}
	hasMem := false
	mapsFree := false
	for _, a := range ct.Assigns {
		if a.Mem {
			hasMem = true
		}
		if a.Maps {
			mapsFree = true
		}
	}
	fr.mapsFree = mapsFree
	if !hasMem {
		fr.goMemFrameObligation(entry, ct)
	}
	var ks []string
	for k := range names {
		ks = append(ks, k)
	}
	sort.Strings(ks)
	for _, k := range ks {
		tg := listed[k]
		whole := false
		for _, a := range tg {
			if a.Arg == nil {
				whole = true
			}
		}
		if whole {
			continue
		}
		var parts []string
		for _, r := range fr.returns {
			a, b := ex.memGet(entry, k), ex.memGet(r.mem, k)
			if a == b {
				continue
			}
			md := ex.S.Models[strings.TrimPrefix(k, "F_")]
			if len(md.Params) == 0 {
				parts = append(parts, implies(r.reach, fmt.Sprintf("(= %s %s)", a, b)))
				continue
			}
			if len(tg) == 0 {
				// rows of objects that existed at entry are unchanged (rows of objects created inside may differ)
				if md.Params[0].S == SInt {
					parts = append(parts, implies(r.reach, fmt.Sprintf("(forall ((x Int)) (=> (<= (root x) allocbase) (= (select %s x) (select %s x))))", a, b)))
				} else {
					parts = append(parts, implies(r.reach, fmt.Sprintf("(= %s %s)", a, b)))
				}
				continue
			}
			// rows other than the listed ones unchanged
			ec := fr.evalCtx(entry, entry)
			var ne []string
			for _, t := range tg {
				row := ec.argFor(ec.eval(t.Arg), md.Params[0])
				ne = append(ne, fmt.Sprintf("(not (= x %s))", row.T))
			}
			if md.Params[0].S == SInt {
				ne = append(ne, "(<= (root x) allocbase)")
			}
			parts = append(parts, implies(r.reach, fmt.Sprintf("(forall ((x %s)) (=> %s (= (select %s x) (select %s x))))", md.Params[0].S, and(ne...), a, b)))
		}
		if len(parts) > 0 {
			ex.oblige("frame", k, and(parts...), "true", "model field "+k+" changed only where assigns allows", fr.fn.Pos(), nil)
		}
	}
}

// leafAddrs enumerates the (leaf array, address) pairs of a location of Go type t at address addr.
func (ex *Exec) leafAddrs(t types.Type, addr string, out func(arr, addr string)) {
	switch u := t.Underlying().(type) {
	case *types.Struct:
		for i := 0; i < u.NumFields(); i++ {
			ex.leafAddrs(u.Field(i).Type(), ex.D.fieldAddr(t, i, addr), out)
		}
	case *types.Array:
		// elements of arrays are not enumerated (coarse: nothing listed)
	default:
		out(ex.leafArray(t), addr)
	}
}

// goMemFrameObligation: a contract whose assigns clause does not contain "mem" promises that Go memory that existed at
// entry is unchanged at every return, except the listed locations (and the spare capacity of slices listed as sparecap).
func (fr *Frame) goMemFrameObligation(entry *MemState, ct *Contract) {
	ex := fr.ex
	names := map[string]bool{}
	for _, r := range fr.returns {
		if r.mem.memLost || r.mem.lost {
			ex.oblige("frame", "gomem", "false", r.reach, "the assigns clause does not list mem, but the function calls something that may write any Go memory", fr.fn.Pos(), nil)
			return
		}
		for k := range r.mem.arrays {
			if strings.HasPrefix(k, "M_") || (!fr.mapsFree && (strings.HasPrefix(k, "MH_") || strings.HasPrefix(k, "MV_") || k == "ML")) {
				names[k] = true
			}
		}
	}
	exc := map[string][]string{} // array -> conditions on address "a" under which a change is allowed
	ec := fr.evalCtx(entry, entry)
	for _, a := range ct.Assigns {
		switch {
		case a.Deref != nil:
			lv := ec.lvalOf(a.Deref)
			ex.leafAddrs(lv.t, lv.addr, func(arr, addr string) {
				exc[arr] = append(exc[arr], fmt.Sprintf("(= a %s)", addr))
			})
		case a.Alloc != nil:
			pv := ec.coerce(ec.eval(a.Alloc), SInt)
			for k := range names {
				if strings.HasPrefix(k, "M_") && (a.AllocClass == "" || a.AllocClass == k) {
					exc[k] = append(exc[k], fmt.Sprintf("(= (root a) (root %s))", pv.T))
				}
			}
		case a.Spare != nil:
			sv := ec.eval(a.Spare)
			if st, ok := sv.G.Underlying().(*types.Slice); ok {
				arrs := map[string]bool{}
				ex.leafArraysOf(st.Elem(), arrs, map[string]bool{})
				for an := range arrs {
					exc[an] = append(exc[an], inSpare("a", sv.T))
				}
			}
		}
	}
	for _, k := range sortedKeys(names) {
		var parts []string
		for _, r := range fr.returns {
			a, b := ex.memGet(entry, k), ex.memGet(r.mem, k)
			if a == b {
				continue
			}
			conds := []string{"(<= (root a) allocbase)"}
			for _, e := range exc[k] {
				conds = append(conds, not(e))
			}
			parts = append(parts, implies(r.reach, fmt.Sprintf("(forall ((a Int)) (=> %s (= (select %s a) (select %s a))))", and(conds...), a, b)))
		}
		if len(parts) > 0 {
			ex.oblige("frame", "gomem-"+k, and(parts...), "true", "Go memory "+k+" that existed at entry changed only where assigns allows", fr.fn.Pos(), nil)
		}
	}
}

// goneTargetMatches: pattern names a function that was under contract on the pinned tree and does not exist any more.
func goneTargetMatches(P *Program, pat string) bool {
	if i := strings.LastIndex(pat, ":"); i >= 0 {
		pat = pat[i+1:]
	}
	for k := range ledgerTargets {
		if strings.HasSuffix(k, "."+pat) || strings.HasSuffix(k, ")."+pat) {
			if lookupFunc(P, k) == nil {
				return true
			}
		}
	}
	return false
}
