package main

import (
	"bytes"
	"context"
	"fmt"
	"os"
	"os/exec"
	"path/filepath"
	"strings"
	"sync"
	"time"
)

type SolverResult struct {
	Status  string // unsat | sat | unknown | timeout | error
	Backend string
	TimeS   float64
	Output  string
	All     map[string]string // backend -> status
}

type solverSpec struct {
	name string
	args func(file string, timeoutS int) []string
}

var solvers = []solverSpec{
	{"z3-5.1.0", func(f string, t int) []string { return []string{"z3-new", "-smt2", fmt.Sprintf("-T:%d", t), f} }},
	{"z3-4.8.12", func(f string, t int) []string { return []string{"/usr/bin/z3", "-smt2", fmt.Sprintf("-T:%d", t), f} }},
	{"cvc5-1.0.3", func(f string, t int) []string {
		return []string{"cvc5", fmt.Sprintf("--tlimit=%d", t*1000), f}
	}},
}

func firstLine(s string) string {
	s = strings.TrimSpace(s)
	if i := strings.IndexByte(s, '\n'); i >= 0 {
		s = s[:i]
	}
	return strings.TrimSpace(s)
}

func runOne(ctx context.Context, sp solverSpec, file string, timeoutS int) (string, string, float64) {
	t0 := time.Now()
	cctx, cancel := context.WithTimeout(ctx, time.Duration(timeoutS+2)*time.Second)
	defer cancel()
	a := sp.args(file, timeoutS)
	cmd := exec.CommandContext(cctx, a[0], a[1:]...)
	var out bytes.Buffer
	cmd.Stdout = &out
	cmd.Stderr = &out
	_ = cmd.Run()
	dt := time.Since(t0).Seconds()
	fl := firstLine(out.String())
	switch fl {
	case "unsat", "sat", "unknown":
		return fl, out.String(), dt
	case "timeout":
		return "timeout", out.String(), dt
	}
	if cctx.Err() != nil {
		return "timeout", out.String(), dt
	}
	if strings.Contains(out.String(), "timeout") || strings.Contains(out.String(), "interrupted") {
		return "timeout", out.String(), dt
	}
	return "error", out.String(), dt
}

// solveRace runs all solvers on the script; first definite answer (unsat/sat) wins.
// If requireAll is set, waits for all solvers and reports disagreement as error.
func solveRace(file string, timeoutS int, requireAll bool) SolverResult {
	ctx, cancel := context.WithCancel(context.Background())
	defer cancel()
	type r struct {
		name, st, out string
		dt            float64
	}
	ch := make(chan r, len(solvers))
	for _, sp := range solvers {
		go func(sp solverSpec) {
			st, out, dt := runOne(ctx, sp, file, timeoutS)
			ch <- r{sp.name, st, out, dt}
		}(sp)
	}
	res := SolverResult{Status: "unknown", All: map[string]string{}}
	var definite *r
	var errOut string
	for i := 0; i < len(solvers); i++ {
		x := <-ch
		res.All[x.name] = x.st
		if x.st == "error" {
			errOut += x.name + ": " + trunc(x.out, 400) + "\n"
		}
		if x.st == "unsat" || x.st == "sat" {
			if definite == nil {
				xx := x
				definite = &xx
				if !requireAll {
					cancel()
					break
				}
			} else if definite.st != x.st {
				res.Status = "error"
				res.Output = fmt.Sprintf("solver disagreement: %s=%s %s=%s", definite.name, definite.st, x.name, x.st)
				return res
			}
		}
	}
	if definite != nil {
		res.Status, res.Backend, res.TimeS, res.Output = definite.st, definite.name, definite.dt, definite.out
		return res
	}
	// no definite answer
	st := "unknown"
	allTO := true
	for _, s := range res.All {
		if s != "timeout" {
			allTO = false
		}
	}
	if allTO {
		st = "timeout"
	}
	allErr := true
	for _, s := range res.All {
		if s != "error" {
			allErr = false
		}
	}
	if allErr {
		st = "error"
	}
	res.Status = st
	res.Output = errOut
	return res
}

// getModel re-runs one solver with (get-model) appended.
func getModel(file string, backend string, timeoutS int) string {
	data, err := os.ReadFile(file)
	if err != nil {
		return ""
	}
	mf := strings.TrimSuffix(file, ".smt2") + ".model.smt2"
	_ = os.WriteFile(mf, append(data, []byte("(get-model)\n")...), 0o644)
	defer os.Remove(mf)
	for _, sp := range solvers {
		if sp.name == backend {
			_, out, _ := runOne(context.Background(), sp, mf, timeoutS)
			return out
		}
	}
	return ""
}

type job struct {
	ob   *Obligation
	file string
}

// dischargeAll: proof obligations first (few at a time, so that wall-clock timeouts are not eaten by oversubscription),
// then the reachability covers (3 s each, "not refuted" is the good answer, so they can share the cores freely).
func dischargeAll(obs []*Obligation, outDir string, timeoutS int, requireAll bool, par int) {
	var proofs, covers []*Obligation
	for _, ob := range obs {
		if ob.ExpectSat {
			covers = append(covers, ob)
		} else {
			proofs = append(proofs, ob)
		}
	}
	dischargeSome(proofs, outDir, timeoutS, requireAll, par)
	dischargeSome(covers, outDir, timeoutS, requireAll, 3*par)
}

func dischargeSome(obs []*Obligation, outDir string, timeoutS int, requireAll bool, par int) {
	_ = os.MkdirAll(outDir, 0o755)
	var wg sync.WaitGroup
	sem := make(chan struct{}, par)
	for _, ob := range obs {
		if ob.Result != nil { // pre-decided (engine-level failures)
			continue
		}
		ob := ob
		wg.Add(1)
		sem <- struct{}{}
		go func() {
			defer wg.Done()
			defer func() { <-sem }()
			file := filepath.Join(outDir, sanitize(ob.Name)+".smt2")
			if len(file) > 240 {
				file = file[:200] + fmt.Sprintf("_%x.smt2", hashStr(ob.Name))
			}
			if err := os.WriteFile(file, []byte(ob.Script), 0o644); err != nil {
				ob.Result = &SolverResult{Status: "error", Output: err.Error()}
				return
			}
			ob.File = file
			to := timeoutS
			if ob.ExpectSat && to > 3 {
				to = 3 // covers: a quick attempt to refute the hypotheses is enough
			}
			if ob.OptKey != "" && to > 10 {
				to = 10 // optional invariants: the ones that hold are proved in well under a second; the others are dropped
			}
			r := solveRace(file, to, requireAll && !ob.ExpectSat)
			if ob.ExpectSat {
				// cover obligation: sat is the good answer
				ob.Result = &r
				return
			}
			if r.Status == "sat" {
				r.Output = getModel(file, r.Backend, timeoutS)
			}
			ob.Result = &r
		}()
	}
	wg.Wait()
}

func hashStr(s string) uint32 {
	var h uint32 = 2166136261
	for i := 0; i < len(s); i++ {
		h ^= uint32(s[i])
		h *= 16777619
	}
	return h
}
