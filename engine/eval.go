package main

import (
	"go/token"
	"fmt"
	"go/types"
	"os"
	"sort"
	"strings"

	"golang.org/x/tools/go/ssa"
)

// EvalCtx evaluates contract expressions to SMT terms.
type EvalCtx struct {
	ex        *Exec
	fr        *Frame
	mem       *MemState // current state
	old       *MemState // state for old(...)
	names     map[string]Val
	bound     []map[string]Val
	loop      *loopInfo
	loopEntry *MemState
	at        ssa.Instruction // program point for local-name resolution (nil = function end / header)
	copyFromOld bool
	frameExcept map[string][]string // gomem_unchanged(...): per leaf array, extra conditions on address a
	inLoopEntry bool
	wit         []string // candidate witnesses for Int-bound existentials (loop indices)
	witDepth    int
	frameBase   string // allocation watermark for frame formulas (default: allocbase = function entry)
	goal        bool // expression is an obligation (not an assumption)
	neg         bool // current polarity is negative
	nopol       bool // under an equivalence: polarity unknown
}

// witnessCandidates: current values of all range-loop indices (element being processed / completed count).
func (fr *Frame) witnessCandidates() []string {
	var out []string
	var heads []*ssa.BasicBlock
	for h := range fr.loops {
		heads = append(heads, h)
	}
	sort.Slice(heads, func(i, j int) bool { return fr.loops[heads[i]].ord < fr.loops[heads[j]].ord })
	for _, h := range heads {
		if t, ok := fr.loopIndexTerm(fr.loops[h]); ok {
			out = append(out, t)
		}
	}
	return out
}

func (ec *EvalCtx) exceptListed(args []Expr, name string) bool {
	for _, a := range args {
		if id, ok := a.(*EIdent); ok && id.Name == name {
			return true
		}
	}
	return false
}

type evalErr string

func (fr *Frame) evalCtx(mem, old *MemState) *EvalCtx {
	return &EvalCtx{ex: fr.ex, fr: fr, mem: mem, old: old, names: map[string]Val{}}
}

func (ec *EvalCtx) fail(format string, a ...any) { panic(evalErr(fmt.Sprintf(format, a...))) }

func (ec *EvalCtx) tryBool(e Expr) (s string, err error) {
	defer func() {
		if r := recover(); r != nil {
			switch x := r.(type) {
			case evalErr:
				err = fmt.Errorf("%s", string(x))
			case engineErr:
				err = fmt.Errorf("%s", string(x))
			default:
				panic(r)
			}
		}
	}()
	return ec.evalBool(e), nil
}

func (ec *EvalCtx) evalBool(e Expr) string {
	v := ec.eval(e)
	if v.S != SBool {
		ec.fail("expression %s has sort %s, expected Bool", exprString(e), v.S)
	}
	return v.T
}

// lval is an addressable location (Go memory) of a Go type.
type lval struct {
	addr string
	t    types.Type
}

func (ec *EvalCtx) lookupName(n string) (Val, bool) {
	if v, ok := ec.lookupName0(n); ok {
		return v, true
	}
	// the name is not a variable of the function any more: if the pinned tree knew it as the k-th variable of some type
	// (or the i-th parameter), bind it to the variable that holds that place now (renamed locals and parameters)
	if ec.fr != nil && ec.ex.bindings != nil {
		for f := ec.fr; f != nil; f = f.parentFrame {
			if alt := ec.ex.rebind(f.fn, n); alt != "" && alt != n {
				if v, ok := ec.lookupName0(alt); ok {
					ec.ex.note("contract name %s of %s bound to the renamed variable %s", n, f.fn.Name(), alt)
					return v, true
				}
			}
		}
	}
	return Val{}, false
}

func (ec *EvalCtx) lookupName0(n string) (Val, bool) {
	for i := len(ec.bound) - 1; i >= 0; i-- {
		if v, ok := ec.bound[i][n]; ok {
			return v, true
		}
	}
	if v, ok := ec.names[n]; ok {
		return v, true
	}
	if ec.fr != nil {
		if v, ok := ec.fr.names[n]; ok {
			return v, true
		}
		if v, ok := ec.fr.params[n]; ok {
			ec.ex.recordBinding(ec.fr.fn, n)
			return v, true
		}
		if v, ok := ec.fr.localByName(n, ec); ok {
			ec.ex.recordBinding(ec.fr.fn, n)
			return v, true
		}
		// inside an inlined callee (e.g. a function literal): names of the functions it is inlined into
		for pf := ec.fr.parentFrame; pf != nil; pf = pf.parentFrame {
			if v, ok := pf.names[n]; ok {
				return v, true
			}
			if v, ok := pf.params[n]; ok {
				ec.ex.recordBinding(pf.fn, n)
				return v, true
			}
			pc := *ec
			pc.fr = pf
			pc.loop = nil
			pc.at = nil
			if v, ok := pf.localByName(n, &pc); ok {
				ec.ex.recordBinding(pf.fn, n)
				return v, true
			}
		}
	}
	if c, ok := ec.ex.S.Consts[n]; ok {
		return ec.eval(c.E), true
	}
	// Go package-level constants of the function's package, e.g. constants.DynamicCacheLabel is written as a string literal instead.
	return Val{}, false
}

// localByName resolves a local variable name: loop-header phis by comment, allocs by comment (loaded), debug refs.
func (fr *Frame) localByName(n string, ec *EvalCtx) (Val, bool) {
	ex := fr.ex
	if len(n) == 4 && strings.HasPrefix(n, "idx") && n[3] >= '1' && n[3] <= '9' {
		// idx<k>: index of loop with ordinal k (number of completed iterations / current element inside its body)
		for _, li := range fr.loops {
			if li.ord == int(n[3]-'0') {
				if t, ok := fr.loopIndexTerm(li); ok {
					return Val{T: t, S: SInt, G: types.Typ[types.Int]}, true
				}
			}
		}
	}
	if ec.loop == nil && ec.at != nil && n == "idx" {
		// site clauses: the innermost loop containing the call site
		var best *loopInfo
		for _, li := range fr.loops {
			if li.body[ec.at.Block()] && (best == nil || len(li.body) < len(best.body)) {
				best = li
			}
		}
		if best != nil {
			if t, ok := fr.loopIndexTerm(best); ok {
				return Val{T: t, S: SInt, G: types.Typ[types.Int]}, true
			}
		}
	}
	if ec.loop != nil {
		if n == "idx" { // number of completed iterations of a range-over-slice loop
			if t, ok := fr.loopIndexTerm(ec.loop); ok {
				return Val{T: t, S: SInt, G: types.Typ[types.Int]}, true
			}
		}
		if n == "loopint" || n == "loopbool" {
			// role-based names: the only integer (other than the loop counter) / the only boolean variable carried round the loop
			var found *ssa.Phi
			cnt := 0
			idxTerm, _ := fr.loopIndexTerm(ec.loop)
			for _, in := range ec.loop.head.Instrs {
				phi, ok := in.(*ssa.Phi)
				if !ok {
					break
				}
				b, isB := phi.Type().Underlying().(*types.Basic)
				if !isB {
					continue
				}
				if n == "loopbool" && b.Kind() != types.Bool {
					continue
				}
				if n == "loopint" {
					if b.Info()&types.IsInteger == 0 || phi.Comment == "rangeindex" {
						continue
					}
					if v, ok := fr.vals[phi]; ok && v.T == idxTerm {
						continue
					}
				}
				found = phi
				cnt++
			}
			if cnt == 1 {
				if ec.inLoopEntry {
					if v, ok := ec.loop.entryPhi[found]; ok {
						return v, true
					}
				}
				if v, ok := fr.vals[found]; ok {
					return v, true
				}
			}
			return Val{}, false
		}
		for _, in := range ec.loop.head.Instrs {
			if phi, ok := in.(*ssa.Phi); ok && phi.Comment == n {
				if ec.inLoopEntry {
					if v, ok := ec.loop.entryPhi[phi]; ok {
						return v, true
					}
				}
				if v, ok := fr.vals[phi]; ok {
					return v, true
				}
			}
		}
	}
	// address-taken locals / named results: Alloc with comment n
	for _, b := range fr.fn.Blocks {
		for _, in := range b.Instrs {
			if a, ok := in.(*ssa.Alloc); ok && a.Comment == n {
				if av, ok := fr.vals[a]; ok {
					et := a.Type().Underlying().(*types.Pointer).Elem()
					if iv, ok := ex.immCells[av.T]; ok {
						return Val{T: iv.T, S: iv.S, G: et}, true // write-once cell
					}
					return Val{T: ex.load(ec.mem, et, av.T), S: ex.D.sortOf(et), G: et}, true
				}
			}
		}
	}
	// captured variables of a function literal: the variable itself (captured by reference, so its current content)
	for _, fv := range fr.fn.FreeVars {
		if fv.Name() != n {
			continue
		}
		if av := fr.val(fv); true {
			if pt, isP := fv.Type().Underlying().(*types.Pointer); isP {
				return Val{T: ex.load(ec.mem, pt.Elem(), av.T), S: ex.D.sortOf(pt.Elem()), G: pt.Elem()}, true
			}
			return av, true
		}
	}
	// a variable assigned on several paths before the point of use: the phi that merges them and dominates that point
	{
		var use *ssa.BasicBlock
		if ec.at != nil {
			use = ec.at.Block()
		} else if ec.loop != nil {
			use = ec.loop.head
		}
		if use != nil {
			var best *ssa.Phi
			for _, b := range fr.fn.Blocks {
				if !b.Dominates(use) {
					continue
				}
				for _, in := range b.Instrs {
					phi, ok := in.(*ssa.Phi)
					if !ok {
						break
					}
					if phi.Comment != n {
						continue
					}
					if _, has := fr.vals[phi]; !has {
						continue
					}
					if best == nil || best.Block().Dominates(b) {
						best = phi
					}
				}
			}
			if best != nil {
				return fr.vals[best], true
			}
		}
	}
	// debug refs: the unique SSA value bound to identifier n that has a value already
	var found, constFound *Val
	cnt := 0
	seen := map[ssa.Value]bool{}
	for _, b := range fr.fn.Blocks {
		for _, in := range b.Instrs {
			if d, ok := in.(*ssa.DebugRef); ok && !d.IsAddr {
				if id, ok := d.Expr.(interface{ String() string }); ok && id.String() == n {
					if os.Getenv("GOVC_DEBUG") != "" {
						fmt.Fprintf(os.Stderr, "  debugref %s -> %s (%T) seen=%v\n", n, d.X.Name(), d.X, seen[d.X])
					}
					if v, ok := fr.vals[d.X]; ok && !seen[d.X] {
						seen[d.X] = true
						vv := v
						found = &vv
						cnt++
					} else if c, isC := d.X.(*ssa.Const); isC && !seen[d.X] {
						seen[d.X] = true
						vv := ex.constVal(c)
						constFound = &vv
					}
				}
			}
		}
	}
	if os.Getenv("GOVC_DEBUG") != "" {
		fmt.Fprintf(os.Stderr, "localByName(%s) in %s: cnt=%d loop=%v\n", n, fr.fn.Name(), cnt, ec.loop != nil)
	}
	if cnt == 0 && constFound != nil {
		return *constFound, true // only the zero-value declaration binds the name
	}
	if cnt == 1 {
		return *found, true
	}
	if cnt > 1 && ec.loop == nil {
		// ambiguous: prefer the value defined last (function-end view)
		return *found, true
	}
	return Val{}, false
}

func (ec *EvalCtx) eval(e Expr) Val {
	ex := ec.ex
	switch x := e.(type) {
	case *ELit:
		switch x.Kind {
		case "int":
			return Val{T: x.Val, S: SInt}
		case "bool":
			return Val{T: x.Val, S: SBool}
		case "str":
			return Val{T: ex.D.strLit(x.Val), S: SStr}
		case "nil":
			return Val{T: "nil", S: "Nil"}
		}
	case *EIdent:
		if v, ok := ec.lookupName(x.Name); ok {
			return v
		}
		// zero-arity model field
		if an, md := ex.modelArray(x.Name); md != nil && len(md.Params) == 0 {
			return Val{T: ex.memGet(ec.mem, an), S: md.Ret}
		}
		ec.fail("unknown identifier %q", x.Name)
	case *EUn:
		switch x.Op {
		case "!":
			ec.neg = !ec.neg
			v := ec.evalBool(x.X)
			ec.neg = !ec.neg
			return Val{T: not(v), S: SBool}
		case "-":
			v := ec.eval(x.X)
			return Val{T: fmt.Sprintf("(- %s)", v.T), S: v.S}
		case "&":
			lv := ec.lvalOf(x.X)
			return Val{T: lv.addr, S: SInt, G: types.NewPointer(lv.t)}
		case "*":
			v := ec.eval(x.X)
			pt, ok := derefType(v.G)
			if !ok {
				ec.fail("cannot dereference %s (no pointer type)", exprString(x.X))
			}
			return Val{T: ex.load(ec.mem, pt, v.T), S: ex.D.sortOf(pt), G: pt}
		}
	case *EBin:
		return ec.evalBin(x)
	case *ESel:
		return ec.evalSel(x)
	case *EIdx:
		return ec.evalIdx(x)
	case *EUpd:
		a := ec.eval(x.X)
		ks, vs, ok := arraySorts(a.S)
		if !ok {
			ec.fail("update of non-array %s", exprString(x.X))
		}
		i := ec.coerce(ec.eval(x.I), ks)
		v := ec.coerce(ec.eval(x.V), vs)
		return Val{T: fmt.Sprintf("(store %s %s %s)", a.T, i.T, v.T), S: a.S}
	case *ECall:
		return ec.evalCall(x)
	case *EQuant:
		return ec.evalQuant(x)
	case *EIte:
		svn := ec.nopol
		ec.nopol = true
		c := ec.evalBool(x.C)
		ec.nopol = svn
		a := ec.eval(x.A)
		b := ec.eval(x.B)
		a, b = ec.unify(a, b)
		return Val{T: ite(c, a.T, b.T), S: a.S, G: a.G}
	case *ESlc:
		ec.fail("slice expressions are not supported in contracts")
	}
	ec.fail("cannot evaluate %s", exprString(e))
	return Val{}
}

func derefType(t types.Type) (types.Type, bool) {
	if t == nil {
		return nil, false
	}
	if p, ok := t.Underlying().(*types.Pointer); ok {
		return p.Elem(), true
	}
	return nil, false
}

func arraySorts(s Sort) (Sort, Sort, bool) {
	str := string(s)
	if !strings.HasPrefix(str, "(Array ") {
		return "", "", false
	}
	inner := str[7 : len(str)-1]
	// split first sort
	depth := 0
	for i := 0; i < len(inner); i++ {
		switch inner[i] {
		case '(':
			depth++
		case ')':
			depth--
		case ' ':
			if depth == 0 {
				return Sort(inner[:i]), Sort(inner[i+1:]), true
			}
		}
	}
	return "", "", false
}

// unify makes nil literals and iface/int mixes comparable.
func (ec *EvalCtx) unify(a, b Val) (Val, Val) {
	if a.S == "Nil" && b.S == "Nil" {
		return Val{T: "0", S: SInt}, Val{T: "0", S: SInt}
	}
	if a.S == "Nil" {
		return Val{T: zeroOfSort(b.S), S: b.S, G: b.G}, b
	}
	if b.S == "Nil" {
		return a, Val{T: zeroOfSort(a.S), S: a.S, G: a.G}
	}
	if a.S == SIface && b.S == SInt {
		return Val{T: fmt.Sprintf("(ival %s)", a.T), S: SInt}, b
	}
	if a.S == SInt && b.S == SIface {
		return a, Val{T: fmt.Sprintf("(ival %s)", b.T), S: SInt}
	}
	return a, b
}

func (ec *EvalCtx) coerce(v Val, to Sort) Val {
	if v.S == to {
		return v
	}
	if v.S == "Nil" {
		return Val{T: zeroOfSort(to), S: to}
	}
	if v.S == SIface && to == SInt {
		return Val{T: fmt.Sprintf("(ival %s)", v.T), S: SInt, G: v.G}
	}
	ec.fail("sort mismatch: have %s, want %s (term %s)", v.S, to, trunc(v.T, 80))
	return v
}

func (ec *EvalCtx) evalBin(x *EBin) Val {
	switch x.Op {
	case "&&":
		return Val{T: and(ec.evalBool(x.X), ec.evalBool(x.Y)), S: SBool}
	case "||":
		return Val{T: or(ec.evalBool(x.X), ec.evalBool(x.Y)), S: SBool}
	case "==>":
		ec.neg = !ec.neg
		l := ec.evalBool(x.X)
		ec.neg = !ec.neg
		return Val{T: implies(l, ec.evalBool(x.Y)), S: SBool}
	case "<==>":
		sv := ec.nopol
		ec.nopol = true
		l, r := ec.evalBool(x.X), ec.evalBool(x.Y)
		ec.nopol = sv
		return Val{T: fmt.Sprintf("(= %s %s)", l, r), S: SBool}
	}
	svp := ec.nopol
	if x.Op == "==" || x.Op == "!=" {
		ec.nopol = true
	}
	a, b := ec.eval(x.X), ec.eval(x.Y)
	ec.nopol = svp
	switch x.Op {
	case "==", "!=":
		a, b = ec.unify(a, b)
		if a.S != b.S {
			ec.fail("comparison of %s and %s in %s", a.S, b.S, exprString(x))
		}
		var t string
		if a.S == SSlice && (b.T == "(mkS 0 0 0 0)" || a.T == "(mkS 0 0 0 0)") {
			o := a
			if a.T == "(mkS 0 0 0 0)" {
				o = b
			}
			t = fmt.Sprintf("(= (sarr %s) 0)", o.T)
		} else {
			t = fmt.Sprintf("(= %s %s)", a.T, b.T)
		}
		if x.Op == "!=" {
			t = not(t)
		}
		return Val{T: t, S: SBool}
	case "<", "<=", ">", ">=":
		a = ec.coerce(a, SInt)
		b = ec.coerce(b, SInt)
		return Val{T: fmt.Sprintf("(%s %s %s)", x.Op, a.T, b.T), S: SBool}
	case "+":
		if a.S == SStr {
			return Val{T: fmt.Sprintf("(strcat %s %s)", a.T, b.T), S: SStr}
		}
		return Val{T: fmt.Sprintf("(+ %s %s)", a.T, b.T), S: SInt}
	case "-", "*":
		return Val{T: fmt.Sprintf("(%s %s %s)", x.Op, a.T, b.T), S: SInt}
	case "/":
		return Val{T: fmt.Sprintf("(div %s %s)", a.T, b.T), S: SInt}
	case "%":
		return Val{T: fmt.Sprintf("(mod %s %s)", a.T, b.T), S: SInt}
	case "in":
		// k in m : set membership (array to Bool) or Go map key presence
		if ks, vs, ok := arraySorts(b.S); ok && vs == SBool {
			a = ec.coerce(a, ks)
			return Val{T: fmt.Sprintf("(select %s %s)", b.T, a.T), S: SBool}
		}
		if b.G != nil {
			if mt, ok := b.G.Underlying().(*types.Map); ok {
				return Val{T: ec.ex.mapHas(ec.mem, mt, b.T, a.T), S: SBool}
			}
		}
		ec.fail("'in' needs a set or a map on the right: %s", exprString(x))
	}
	ec.fail("operator %s", x.Op)
	return Val{}
}

// lvalOf resolves an expression denoting a Go memory location.
func (ec *EvalCtx) lvalOf(e Expr) lval {
	ex := ec.ex
	switch x := e.(type) {
	case *ESel:
		// field of pointer-to-struct or of an lvalue struct
		base := ec.tryLvalOrPtr(x.X)
		st := base.t
		path, ft, ok := fieldPath(st, x.Name)
		if !ok {
			ec.fail("type %s has no field %s", st, x.Name)
		}
		addr := base.addr
		cur := st
		for _, idx := range path {
			// auto-deref embedded pointers
			if p, isP := cur.Underlying().(*types.Pointer); isP {
				addr = ex.load(ec.mem, cur, addr)
				cur = p.Elem()
			}
			s := cur.Underlying().(*types.Struct)
			addr = ex.D.fieldAddr(cur, idx, addr)
			cur = s.Field(idx).Type()
		}
		return lval{addr, ft}
	case *EIdx:
		b := ec.eval(x.X)
		i := ec.coerce(ec.eval(x.I), SInt)
		if b.G != nil {
			if st, ok := b.G.Underlying().(*types.Slice); ok {
				return lval{fmt.Sprintf("(elemaddr %s %s)", b.T, i.T), st.Elem()}
			}
		}
		ec.fail("cannot take element location of %s", exprString(x.X))
	case *EUn:
		if x.Op == "*" {
			v := ec.eval(x.X)
			pt, ok := derefType(v.G)
			if !ok {
				ec.fail("cannot dereference %s", exprString(x.X))
			}
			return lval{v.T, pt}
		}
	}
	ec.fail("%s is not addressable", exprString(e))
	return lval{}
}

// tryLvalOrPtr: for x in x.f — if x is a pointer value, location is *x; if x is itself a location of struct type, that.
func (ec *EvalCtx) tryLvalOrPtr(e Expr) lval {
	// pointer-valued expression?
	if id, ok := e.(*EIdent); ok {
		v, found := ec.lookupName(id.Name)
		if !found {
			ec.fail("unknown identifier %q", id.Name)
		}
		if pt, ok := derefType(v.G); ok {
			return lval{v.T, pt}
		}
		if v.G != nil {
			if _, isI := v.G.Underlying().(*types.Interface); isI {
				ec.fail("field access through interface value %s (use a model field)", id.Name)
			}
		}
		ec.fail("%s is not a pointer to a struct (type %v)", id.Name, v.G)
	}
	if sel, ok := e.(*ESel); ok {
		// a pointer-typed field of a struct VALUE (e.g. a by-value receiver): no location involved
		if id, isId := sel.X.(*EIdent); isId {
			if v, found := ec.lookupName(id.Name); found && v.G != nil {
				if st, isS := v.G.Underlying().(*types.Struct); isS {
					fv := ec.selStructVal(v, st, sel.Name)
					if pt, ok := derefType(fv.G); ok {
						return lval{fv.T, pt}
					}
				}
			}
		}
	}
	switch x := e.(type) {
	case *ESel, *EIdx:
		lv := ec.lvalOf(x)
		if pt, ok := derefType(lv.t); ok {
			return lval{ec.ex.load(ec.mem, lv.t, lv.addr), pt}
		}
		return lv
	case *ECall:
		v := ec.eval(x)
		if pt, ok := derefType(v.G); ok {
			return lval{v.T, pt}
		}
	case *EUn:
		if x.Op == "*" {
			return ec.lvalOf(x)
		}
	}
	ec.fail("cannot use %s as struct location", exprString(e))
	return lval{}
}

func fieldPath(t types.Type, name string) ([]int, types.Type, bool) {
	obj, path, _ := types.LookupFieldOrMethod(t, true, nil, name)
	if obj == nil {
		// unexported fields need the package: search manually
		return manualFieldPath(t, name, 0)
	}
	if v, ok := obj.(*types.Var); ok && v.IsField() {
		return path, v.Type(), true
	}
	return nil, nil, false
}

func manualFieldPath(t types.Type, name string, depth int) ([]int, types.Type, bool) {
	if depth > 4 {
		return nil, nil, false
	}
	if p, ok := t.Underlying().(*types.Pointer); ok {
		t = p.Elem()
	}
	st, ok := t.Underlying().(*types.Struct)
	if !ok {
		return nil, nil, false
	}
	for i := 0; i < st.NumFields(); i++ {
		if st.Field(i).Name() == name {
			return []int{i}, st.Field(i).Type(), true
		}
	}
	for i := 0; i < st.NumFields(); i++ {
		if st.Field(i).Embedded() {
			if p, ft, ok := manualFieldPath(st.Field(i).Type(), name, depth+1); ok {
				return append([]int{i}, p...), ft, true
			}
		}
	}
	return nil, nil, false
}

// structValue evaluates e as a struct VALUE (datatype term) if it denotes one.
// sortPermFn: the permutation function of the n-th sort.Slice call - of the function being executed, or, inside a
// contract applied at a call site, a function symbol of its own for that call (the callee's witness).
func (ec *EvalCtx) sortPermFn(n string) string {
	ex := ec.ex
	if _, atCall := ec.names["$callee"]; !atCall {
		return ex.sortPerms[canonName(ec.fr.fn)+"#"+n]
	}
	if v, ok := ec.names["$sortperm#"+n]; ok {
		return v.T
	}
	ex.cnt++
	pf := fmt.Sprintf("sortperm_call%d_%s", ex.cnt, n)
	ex.declFun(pf, "(Int) Int")
	ex.declFun(pf+"_inv", "(Int) Int")
	ec.names["$sortperm#"+n] = Val{T: pf, S: SInt}
	return pf
}

func (ec *EvalCtx) structValue(e Expr) (Val, bool) {
	switch x := e.(type) {
	case *EIdent:
		if v, found := ec.lookupName(x.Name); found && v.G != nil {
			if _, isS := v.G.Underlying().(*types.Struct); isS {
				return v, true
			}
		}
	case *EIdx:
		// m[k] where m is a Go map with struct values: the value is not addressable, it is a struct value
		if id, isId := x.X.(*EIdent); isId {
			if mv, found := ec.lookupName(id.Name); found && mv.G != nil {
				if mt, isM := mv.G.Underlying().(*types.Map); isM {
					if _, isS := mt.Elem().Underlying().(*types.Struct); isS {
						return ec.evalIdx(x), true
					}
				}
			}
		}
	case *ESel:
		if b, ok := ec.structValue(x.X); ok {
			st := b.G.Underlying().(*types.Struct)
			if _, _, has := manualFieldPath(b.G, x.Name, 0); has {
				v := ec.selStructVal(b, st, x.Name)
				if v.G != nil {
					if _, isS := v.G.Underlying().(*types.Struct); isS {
						return v, true
					}
				}
			}
		}
	}
	return Val{}, false
}

func (ec *EvalCtx) evalSel(x *ESel) Val {
	ex := ec.ex
	if b, ok := ec.structValue(x.X); ok {
		return ec.selStructVal(b, b.G.Underlying().(*types.Struct), x.Name)
	}
	// struct VALUE selection (datatype accessor)
	if id, ok := x.X.(*EIdent); ok {
		if v, found := ec.lookupName(id.Name); found && v.G != nil {
			if st, isS := v.G.Underlying().(*types.Struct); isS {
				return ec.selStructVal(v, st, x.Name)
			}
		}
	}
	if inner, ok := x.X.(*EIdx); ok {
		// s[i].f where s is a slice of structs: go through memory
		_ = inner
	}
	if c, ok := x.X.(*ECall); ok {
		v := ec.eval(c)
		if v.G != nil {
			if st, isS := v.G.Underlying().(*types.Struct); isS {
				return ec.selStructVal(v, st, x.Name)
			}
		}
	}
	lv := ec.lvalOf(x)
	return Val{T: ex.load(ec.mem, lv.t, lv.addr), S: ex.D.sortOf(lv.t), G: lv.t}
}

func (ec *EvalCtx) selStructVal(v Val, st *types.Struct, name string) Val {
	ex := ec.ex
	path, ft, ok := manualFieldPath(v.G, name, 0)
	if !ok {
		ec.fail("struct %s has no field %s", v.G, name)
	}
	t := v.T
	cur := v.G
	for _, idx := range path {
		si := ex.D.structOf(cur)
		t = fmt.Sprintf("(%s_f%d %s)", si.id, idx, t)
		cur = cur.Underlying().(*types.Struct).Field(idx).Type()
	}
	_ = st
	return Val{T: t, S: ex.D.sortOf(ft), G: ft}
}

func (ec *EvalCtx) evalIdx(x *EIdx) Val {
	ex := ec.ex
	b := ec.eval(x.X)
	if ks, vs, ok := arraySorts(b.S); ok {
		i := ec.coerce(ec.eval(x.I), ks)
		return Val{T: fmt.Sprintf("(select %s %s)", b.T, i.T), S: vs}
	}
	if b.G != nil {
		switch t := b.G.Underlying().(type) {
		case *types.Slice:
			i := ec.coerce(ec.eval(x.I), SInt)
			addr := fmt.Sprintf("(elemaddr %s %s)", b.T, i.T)
			return Val{T: ex.load(ec.mem, t.Elem(), addr), S: ex.D.sortOf(t.Elem()), G: t.Elem()}
		case *types.Map:
			k := ec.coerce(ec.eval(x.I), ex.D.sortOf(t.Key()))
			return Val{T: ex.mapVal(ec.mem, t, b.T, k.T), S: ex.D.sortOf(t.Elem()), G: t.Elem()}
		}
	}
	if b.S == SSlice {
		ec.fail("indexing slice %s needs its Go element type (unknown here)", exprString(x.X))
	}
	ec.fail("cannot index %s of sort %s", exprString(x.X), b.S)
	return Val{}
}

func (ec *EvalCtx) evalQuant(x *EQuant) Val {
	ex := ec.ex
	scope := map[string]Val{}
	var decl []string
	for _, b := range x.Vars {
		s, err := ex.S.sortByName(b.Type)
		if err != nil {
			ec.fail("%v", err)
		}
		ex.cnt++
		n := fmt.Sprintf("q_%s_%d", sanitize(b.Name), ex.cnt)
		scope[b.Name] = Val{T: n, S: s}
		decl = append(decl, fmt.Sprintf("(%s %s)", n, s))
	}
	// explicit instantiation of Int-bound existentials with loop-index candidates (equivalent formula, helps the solvers)
	var insts []string
	if !x.Forall && len(x.Vars) == 1 && ec.witDepth < 2 && ec.goal && !ec.neg && !ec.nopol {
		if s0, _ := ex.S.sortByName(x.Vars[0].Type); s0 == SInt {
			cands := ec.wit
			if ec.fr != nil && cands == nil {
				cands = ec.fr.witnessCandidates()
			}
			if len(cands) == 0 && ec.at != nil {
				cands = []string{"0", "1", "2"} // call-site clauses: positions in short argument lists
			}
			if len(cands) <= 3 {
				for _, c := range cands {
					ec.bound = append(ec.bound, map[string]Val{x.Vars[0].Name: {T: c, S: SInt}})
					ec.witDepth++
					saved := ec.wit
					ec.wit = cands
					insts = append(insts, ec.evalBool(x.Body))
					ec.wit = saved
					ec.witDepth--
					ec.bound = ec.bound[:len(ec.bound)-1]
				}
			}
		}
	}
	ec.bound = append(ec.bound, scope)
	body := ec.evalBool(x.Body)
	var pats []string
	for _, p := range x.Pats {
		pats = append(pats, ec.eval(p).T)
	}
	ec.bound = ec.bound[:len(ec.bound)-1]
	q := "exists"
	if x.Forall {
		q = "forall"
	}
	if len(pats) > 0 {
		body = fmt.Sprintf("(! %s :pattern (%s))", body, strings.Join(pats, " "))
	}
	res := fmt.Sprintf("(%s (%s) %s)", q, strings.Join(decl, " "), body)
	if len(insts) > 0 {
		res = or(append(insts, res)...)
	}
	return Val{T: res, S: SBool}
}

func (ec *EvalCtx) evalCall(x *ECall) Val {
	ex := ec.ex
	switch x.Fn {
	case "old":
		if len(x.Args) != 1 {
			ec.fail("old takes one argument")
		}
		saved := ec.mem
		if ec.old == nil {
			ec.fail("old(...) not available here")
		}
		ec.mem = ec.old
		v := ec.eval(x.Args[0])
		ec.mem = saved
		return v
	case "loopentry": // state at loop entry (inside invariants)
		if ec.loopEntry == nil {
			ec.fail("loopentry(...) only inside loop invariants")
		}
		saved := ec.mem
		ec.mem = ec.loopEntry
		ec.inLoopEntry = true
		v := ec.eval(x.Args[0])
		ec.inLoopEntry = false
		ec.mem = saved
		return v
	case "len":
		v := ec.eval(x.Args[0])
		switch {
		case v.S == SSlice:
			return Val{T: fmt.Sprintf("(slen %s)", v.T), S: SInt}
		case v.S == SStr:
			return Val{T: fmt.Sprintf("(strlen %s)", v.T), S: SInt}
		case v.G != nil:
			if _, ok := v.G.Underlying().(*types.Map); ok {
				return Val{T: ex.mapLen(ec.mem, v.T), S: SInt}
			}
		}
		ec.fail("len of %s", v.S)
	case "cap":
		v := ec.eval(x.Args[0])
		return Val{T: fmt.Sprintf("(scap %s)", v.T), S: SInt}
	case "dyntype":
		v := ec.eval(x.Args[0])
		return Val{T: fmt.Sprintf("(itag %s)", v.T), S: SInt}
	case "ival":
		v := ec.eval(x.Args[0])
		if v.S == SInt {
			return v
		}
		return Val{T: fmt.Sprintf("(ival %s)", v.T), S: SInt}
	case "typetag":
		lit, ok := x.Args[0].(*ELit)
		if !ok || lit.Kind != "str" {
			ec.fail("typetag needs a string literal")
		}
		t := ex.resolveType(lit.Val)
		if t == nil {
			ec.fail("typetag: unknown type %q", lit.Val)
		}
		return Val{T: fmt.Sprintf("%d", ex.D.tagOf(t)), S: SInt}
	case "chainHas":
		e := ec.eval(x.Args[0])
		t := ec.eval(x.Args[1])
		return Val{T: fmt.Sprintf("(chainHas %s %s)", e.T, t.T), S: SBool}
	case "allocated": // allocated before the current program point (distinct from everything allocated later)
		v := ec.coerce(ec.eval(x.Args[0]), SInt)
		w := ex.lastRef
		if w == "" {
			w = "allocbase"
		}
		return Val{T: fmt.Sprintf("(<= (root %s) %s)", v.T, w), S: SBool}
	case "fresh": // allocated during this call
		v := ec.coerce(ec.eval(x.Args[0]), SInt)
		return Val{T: fmt.Sprintf("(> (root %s) allocbase)", v.T), S: SBool}
	case "chcap", "chqueued": // channel capacity / number of queued messages (engine channel model)
		v := ec.coerce(ec.eval(x.Args[0]), SInt)
		arr := "CH_cap"
		if x.Fn == "chqueued" {
			arr = "CH_queued"
		}
		ex.arraySort(arr, "(Array Int Int)")
		return Val{T: fmt.Sprintf("(select %s %s)", ex.memGet(ec.mem, arr), v.T), S: SInt}
	case "objid":
		return ec.objid(ec.eval(x.Args[0]))
	case "ea_arr":
		v := ec.coerce(ec.eval(x.Args[0]), SInt)
		return Val{T: fmt.Sprintf("(ea_arr %s)", v.T), S: SInt}
	case "root":
		v := ec.coerce(ec.eval(x.Args[0]), SInt)
		return Val{T: fmt.Sprintf("(root %s)", v.T), S: SInt}
	case "sarr":
		v := ec.eval(x.Args[0])
		return Val{T: fmt.Sprintf("(sarr %s)", v.T), S: SInt}
	case "rangekey": // the key the map range of the current loop produced for this iteration
		if ec.loop != nil {
			for b := range ec.loop.body {
				for _, in := range b.Instrs {
					if nx, ok := in.(*ssa.Next); ok {
						if it := ec.fr.iters[nx.Iter]; it != nil && it.isMap {
							if tp, ok := ec.fr.tuples[nx]; ok && len(tp) == 3 {
								return tp[1]
							}
						}
					}
				}
			}
		}
		ec.fail("rangekey() outside a map-range loop body")
	case "sortperminv": // inverse of sortperm(n, .)
		lit, ok := x.Args[0].(*ELit)
		if !ok || len(x.Args) != 2 {
			ec.fail("sortperminv(n, a): n must be a literal")
		}
		pf := ec.sortPermFn(lit.Val)
		if pf == "" {
			ec.fail("sortperminv: no sort.Slice#%s executed before this point", lit.Val)
		}
		a := ec.coerce(ec.eval(x.Args[1]), SInt)
		return Val{T: fmt.Sprintf("(%s_inv %s)", pf, a.T), S: SInt, G: types.Typ[types.Int]}
	case "sortperm": // sortperm(n, a): position before the n-th sort.Slice call of the element that is at position a after it
		lit, ok := x.Args[0].(*ELit)
		if !ok || len(x.Args) != 2 {
			ec.fail("sortperm(n, a): n must be a literal")
		}
		pf := ec.sortPermFn(lit.Val)
		if pf == "" {
			ec.fail("sortperm: no sort.Slice#%s executed before this point", lit.Val)
		}
		a := ec.coerce(ec.eval(x.Args[1]), SInt)
		return Val{T: fmt.Sprintf("(%s %s)", pf, a.T), S: SInt, G: types.Typ[types.Int]}
	case "visitedcount": // number of keys the map range of the current loop has produced so far
		if ec.loop != nil {
			for b := range ec.loop.body {
				for _, in := range b.Instrs {
					if nx, ok := in.(*ssa.Next); ok {
						if it := ec.fr.iters[nx.Iter]; it != nil && it.isMap && it.count != "" {
							return Val{T: ex.memGet(ec.mem, it.count), S: SInt}
						}
					}
				}
			}
		}
		ec.fail("visitedcount() outside a map-range loop")
	case "visited":
		// the visited-set of the (unique) map range iterator of the current loop
		if ec.loop != nil {
			for b := range ec.loop.body {
				for _, in := range b.Instrs {
					if nx, ok := in.(*ssa.Next); ok {
						if it := ec.fr.iters[nx.Iter]; it != nil && it.isMap {
							arr := ex.memGet(ec.mem, it.visited)
							if len(x.Args) == 1 {
								k := ec.eval(x.Args[0])
								return Val{T: fmt.Sprintf("(select %s %s)", arr, k.T), S: SBool}
							}
							return Val{T: arr, S: ex.arrSorts[it.visited]}
						}
					}
				}
			}
		}
		ec.fail("visited() outside a map-range loop")
	case "anymap": // view a value as map[string]interface{}
		v := ec.coerce(ec.eval(x.Args[0]), SInt)
		return Val{T: v.T, S: SInt, G: types.NewMap(types.Typ[types.String], types.NewInterfaceType(nil, nil))}
	case "anyslice": // view the payload of an interface value as []interface{}
		v := ec.eval(x.Args[0])
		if v.S == SIface {
			return Val{T: ex.D.unbox(SSlice, fmt.Sprintf("(ival %s)", v.T)), S: SSlice, G: types.NewSlice(types.NewInterfaceType(nil, nil))}
		}
		return Val{T: v.T, S: SSlice, G: types.NewSlice(types.NewInterfaceType(nil, nil))}
	case "strslice": // give a Slice value the Go type []string
		v := ec.eval(x.Args[0])
		return Val{T: v.T, S: SSlice, G: types.NewSlice(types.Typ[types.String])}
	case "asbool":
		v := ec.eval(x.Args[0])
		return Val{T: ex.D.unbox(SBool, fmt.Sprintf("(ival %s)", v.T)), S: SBool}
	case "asstr":
		v := ec.eval(x.Args[0])
		return Val{T: ex.D.unbox(SStr, fmt.Sprintf("(ival %s)", v.T)), S: SStr}
	case "boxstr": // the interface value holding a Go string
		v := ec.coerce(ec.eval(x.Args[0]), SStr)
		return Val{T: fmt.Sprintf("(mkI %d %s)", ex.D.tagOf(types.Typ[types.String]), ex.D.box(SStr, v.T)), S: SIface}
	case "boxnamed": // the interface value holding v converted to the named (non-pointer) type T
		lit, ok := x.Args[0].(*ELit)
		if !ok || lit.Kind != "str" {
			ec.fail("boxnamed needs a type name literal")
		}
		t := ex.resolveType(lit.Val)
		if t == nil {
			ec.fail("boxnamed: unknown type %q", lit.Val)
		}
		v := ec.coerce(ec.eval(x.Args[1]), ex.D.sortOf(t))
		return Val{T: ex.makeIface(t, v.T), S: SIface}
	case "isstr":
		v := ec.eval(x.Args[0])
		return Val{T: fmt.Sprintf("(= (itag %s) %d)", v.T, ex.D.tagOf(types.Typ[types.String])), S: SBool}
	case "ismap_any":
		v := ec.eval(x.Args[0])
		return Val{T: fmt.Sprintf("(= (itag %s) %d)", v.T, ex.D.tagOf(types.NewMap(types.Typ[types.String], types.NewInterfaceType(nil, nil)))), S: SBool}
	case "isslice_any":
		v := ec.eval(x.Args[0])
		return Val{T: fmt.Sprintf("(= (itag %s) %d)", v.T, ex.D.tagOf(types.NewSlice(types.NewInterfaceType(nil, nil)))), S: SBool}
	case "mapvals": // value array of a Go map
		v := ec.eval(x.Args[0])
		if v.G != nil {
			if mt, ok := v.G.Underlying().(*types.Map); ok {
				_, val, ks, vs := ex.mapArrays(mt)
				return Val{T: fmt.Sprintf("(select %s %s)", ex.memGet(ec.mem, val), v.T), S: Sort(fmt.Sprintf("(Array %s %s)", ks, vs))}
			}
		}
		ec.fail("mapvals of non-map")
	case "copyOf": // every object-indexed model field has equal rows for a and b (b's row taken in the old state if given as old(b))
		a := ec.objid(ec.eval(x.Args[0]))
		var b Val
		if ec.copyFromOld {
			sv := ec.mem
			ec.mem = ec.old
			b = ec.objid(ec.eval(x.Args[1]))
			ec.mem = sv
		} else {
			b = ec.objid(ec.eval(x.Args[1]))
		}
		var parts []string
		for _, mn := range sortedKeys(ex.S.Models) {
			md := ex.S.Models[mn]
			if len(md.Params) == 0 || !(md.Params[0].Obj && md.Params[0].Name == "o") {
				continue
			}
			if len(x.Args) > 2 && ec.exceptListed(x.Args[2:], mn) {
				continue
			}
			an, _ := ex.modelArray(mn)
			src := ec.mem
			if ec.old != nil && ec.copyFromOld {
				src = ec.old
			}
			parts = append(parts, fmt.Sprintf("(= (select %s %s) (select %s %s))", ex.memGet(ec.mem, an), a.T, ex.memGet(src, an), b.T))
		}
		return Val{T: and(parts...), S: SBool}
	case "copyOfOld": // like copyOf but b is read in the pre-state
		ec.copyFromOld = true
		v := ec.evalCall(&ECall{Fn: "copyOf", Args: x.Args})
		ec.copyFromOld = false
		return v
	case "asstruct": // view an interface payload as a struct value of the named type
		lit, ok := x.Args[0].(*ELit)
		if !ok {
			ec.fail("asstruct needs a type name literal")
		}
		t := ex.resolveType(lit.Val)
		if t == nil {
			ec.fail("asstruct: unknown type %q", lit.Val)
		}
		v := ec.eval(x.Args[1])
		s := ex.D.sortOf(t)
		return Val{T: ex.D.unbox(s, fmt.Sprintf("(ival %s)", v.T)), S: s, G: t}
	case "asptr": // give an address the Go type *T for the named T (so that it can be dereferenced in contracts)
		lit, ok := x.Args[0].(*ELit)
		if !ok {
			ec.fail("asptr needs a type name literal")
		}
		t := ex.resolveType(lit.Val)
		if t == nil {
			ec.fail("asptr: unknown type %q", lit.Val)
		}
		v := ec.coerce(ec.eval(x.Args[1]), SInt)
		return Val{T: v.T, S: SInt, G: types.NewPointer(t)}
	case "hastype":
		lit, ok := x.Args[0].(*ELit)
		if !ok {
			ec.fail("hastype needs a type name literal")
		}
		t := ex.resolveType(lit.Val)
		if t == nil {
			ec.fail("hastype: unknown type %q", lit.Val)
		}
		v := ec.eval(x.Args[1])
		return Val{T: fmt.Sprintf("(= (itag %s) %d)", v.T, ex.D.tagOf(t)), S: SBool}
	case "slice_of": // give a Slice value the Go type []T for the named T
		lit, ok := x.Args[0].(*ELit)
		if !ok {
			ec.fail("slice_of needs a type name literal")
		}
		t := ex.resolveType(lit.Val)
		if t == nil {
			ec.fail("slice_of: unknown type %q", lit.Val)
		}
		v := ec.eval(x.Args[1])
		return Val{T: v.T, S: SSlice, G: types.NewSlice(t)}
	case "global": // address of a package-level variable
		lit, ok := x.Args[0].(*ELit)
		if !ok {
			ec.fail("global needs a name literal")
		}
		i := strings.LastIndex(lit.Val, ".")
		if i < 0 {
			ec.fail("global: bad name")
		}
		p := ex.P.Pkgs[lit.Val[:i]]
		if p == nil {
			ec.fail("global: unknown package %q", lit.Val[:i])
		}
		g, ok2 := p.Members[lit.Val[i+1:]].(*ssa.Global)
		if !ok2 {
			ec.fail("global: unknown variable %q", lit.Val)
		}
		fr := ec.fr
		if fr == nil {
			ec.fail("global() needs a frame")
		}
		return fr.val(g)
	case "oldmem_unchanged": // every pre-existing Go memory location (and model row of a pre-existing object) holds its entry value
		return Val{T: ec.memFrame(ec.old, ec.mem, true), S: SBool}
	case "gomem_unchanged": // Go memory only (heap cells and maps) at pre-existing locations is as in the pre-state;
		// arguments are locations (lvalues, evaluated in the pre-state) that are exempt
		if len(x.Args) > 0 {
			oc := *ec
			oc.mem = ec.old
			exc := map[string][]string{}
			for _, a := range x.Args {
				if c, ok := a.(*ECall); ok && c.Fn == "alloc" && (len(c.Args) == 1 || len(c.Args) == 2) {
					// the whole allocation the pointer points into (optionally only one leaf class)
					pv := oc.coerce(oc.eval(c.Args[0]), SInt)
					key := "M_*"
					if len(c.Args) == 2 {
						l, ok := c.Args[1].(*ELit)
						if !ok {
							ec.fail("alloc: second argument must be a leaf class literal")
						}
						key = "M_" + l.Val
					}
					exc[key] = append(exc[key], fmt.Sprintf("(not (= (root a) (root %s)))", pv.T))
					continue
				}
				if id, ok := a.(*EIdent); ok && id.Name == "maps" {
					exc["maps"] = []string{"false"}
					continue
				}
				if c, ok := a.(*ECall); ok && c.Fn == "class" && len(c.Args) == 1 {
					// every cell of one leaf class (e.g. class("Str"): all string cells) is exempt
					l, ok := c.Args[0].(*ELit)
					if !ok {
						ec.fail("class: argument must be a leaf class literal")
					}
					exc["M_"+l.Val] = append(exc["M_"+l.Val], "false")
					continue
				}
				if c, ok := a.(*ECall); ok && c.Fn == "elems" && len(c.Args) == 1 {
					// the first len(s) elements of slice s
					sv := oc.eval(c.Args[0])
					st, ok := sv.G.Underlying().(*types.Slice)
					if !ok {
						ec.fail("elems: %s is not a slice", exprString(c.Args[0]))
					}
					arrs := map[string]bool{}
					ex.leafArraysOf(st.Elem(), arrs, map[string]bool{})
					for an := range arrs {
						exc[an] = append(exc[an], fmt.Sprintf("(not (and (= (root a) (root (sarr %s))) (not %s)))", sv.T, inSpare("a", sv.T)))
					}
					continue
				}
				lv := oc.lvalOf(a)
				ex.leafAddrs(lv.t, lv.addr, func(arr, addr string) {
					exc[arr] = append(exc[arr], fmt.Sprintf("(not (= a %s))", addr))
				})
			}
			ec.frameExcept = exc
			r := ec.memFrame(ec.old, ec.mem, false)
			ec.frameExcept = nil
			return Val{T: r, S: SBool}
		}
		return Val{T: ec.memFrame(ec.old, ec.mem, false), S: SBool}
	case "gomem_unchanged_in_loop": // ... as at loop entry
		if ec.loopEntry == nil {
			ec.fail("gomem_unchanged_in_loop() only inside loop invariants")
		}
		sv := ec.frameBase
		if ec.loop != nil && ec.loop.frameBase != "" {
			ec.frameBase = ec.loop.frameBase
		}
		r := ec.memFrame(ec.loopEntry, ec.mem, false)
		ec.frameBase = sv
		return Val{T: r, S: SBool}
	case "mapkeys": // key set of a Go map
		v := ec.eval(x.Args[0])
		if v.G != nil {
			if mt, ok := v.G.Underlying().(*types.Map); ok {
				has, _, ks, _ := ex.mapArrays(mt)
				return Val{T: fmt.Sprintf("(select %s %s)", ex.memGet(ec.mem, has), v.T), S: Sort(fmt.Sprintf("(Array %s Bool)", ks))}
			}
		}
		ec.fail("mapkeys of non-map")
	}
	// model field
	if an, md := ex.modelArray(x.Fn); md != nil {
		if len(x.Args) > len(md.Params) {
			ec.fail("model field %s expects at most %d arguments", x.Fn, len(md.Params))
		}
		t := ex.memGet(ec.mem, an)
		so := md.arraySort()
		for i, a := range x.Args {
			v := ec.argFor(ec.eval(a), md.Params[i])
			t = fmt.Sprintf("(select %s %s)", t, v.T)
			_, so, _ = arraySorts(so)
		}
		return Val{T: t, S: so}
	}
	if uf := ex.S.UFuns[x.Fn]; uf != nil {
		if len(x.Args) != len(uf.Params) {
			ec.fail("function %s expects %d arguments", x.Fn, len(uf.Params))
		}
		ex.declUFun(uf)
		var as []string
		for i, a := range x.Args {
			as = append(as, ec.argFor(ec.eval(a), uf.Params[i]).T)
		}
		if len(as) == 0 {
			return Val{T: "uf_" + uf.Name, S: uf.Ret}
		}
		return Val{T: fmt.Sprintf("(uf_%s %s)", uf.Name, strings.Join(as, " ")), S: uf.Ret}
	}
	if df := ex.S.Defs[x.Fn]; df != nil {
		if len(x.Args) != len(df.Params) {
			ec.fail("function %s expects %d arguments", x.Fn, len(df.Params))
		}
		scope := map[string]Val{}
		for i, a := range x.Args {
			v := ec.eval(a)
			if df.Params[i].Obj {
				v = ec.objid(v)
			} else if v.S != df.Params[i].S {
				v = ec.coerce(v, df.Params[i].S)
			}
			scope[df.Params[i].Name] = v
		}
		// defs are macros evaluated in the current state, with only their params in scope
		sub := &EvalCtx{ex: ex, fr: nil, mem: ec.mem, old: ec.old, names: scope, loop: ec.loop, loopEntry: ec.loopEntry, witDepth: ec.witDepth, goal: ec.goal, neg: ec.neg, nopol: ec.nopol}
		sub.wit = ec.wit
		if sub.wit == nil && ec.fr != nil {
			sub.wit = ec.fr.witnessCandidates()
		}
		sub.bound = ec.bound
		v := sub.eval(df.Body)
		if v.S != df.Ret {
			v = ec.coerce(v, df.Ret)
		}
		return v
	}
	if ct := ex.S.Aliases[x.Fn]; ct != nil && ct.Pure {
		// pure library function: same uninterpreted function the engine uses at call sites
		var as, ss []string
		for _, a := range x.Args {
			v := ec.eval(a)
			as = append(as, v.T)
			ss = append(ss, string(v.S))
		}
		rs := ex.pureResultSort(ct)
		fname := fmt.Sprintf("pf_%s_0", sanitize(shortName(ct.Key)))
		if len(as) == 0 {
			ex.declFun(fname, "() "+string(rs))
			return Val{T: fname, S: rs}
		}
		ex.declFun(fname, "("+strings.Join(ss, " ")+") "+string(rs))
		return Val{T: "(" + fname + " " + strings.Join(as, " ") + ")", S: rs}
	}
	ec.fail("unknown function %q", x.Fn)
	return Val{}
}

// pureResultSort finds the first result sort of a pure library function by its key.
func (ex *Exec) pureResultSort(ct *Contract) Sort {
	if ct.Returns != "" {
		so, err := ex.S.sortByName(ct.Returns)
		if err != nil {
			panic(evalErr(err.Error()))
		}
		return so
	}
	for name, fn := range ssaFuncIndex(ex.P) {
		if name == ct.Key {
			return ex.D.sortOf(fn.Signature.Results().At(0).Type())
		}
	}
	panic(evalErr("pure function " + ct.Key + " not found in the program"))
}

func (ex *Exec) declUFun(uf *UFunDecl) {
	name := "uf_" + uf.Name
	if ex.declaredFun[name] {
		return
	}
	ex.declaredFun[name] = true
	var ps []string
	for _, p := range uf.Params {
		ps = append(ps, string(p.S))
	}
	if len(ps) == 0 {
		ex.D.add("(declare-const %s %s)", name, uf.Ret)
		return
	}
	ex.D.add("(declare-fun %s (%s) %s)", name, strings.Join(ps, " "), uf.Ret)
}

// resolveType finds a Go type by "pkgpath.Name" or "*pkgpath.Name".
func (ex *Exec) resolveType(s string) types.Type {
	switch s {
	case "string":
		return types.Typ[types.String]
	case "int":
		return types.Typ[types.Int]
	case "bool":
		return types.Typ[types.Bool]
	}
	if strings.HasPrefix(s, "[]") {
		if et := ex.resolveType(s[2:]); et != nil {
			return types.NewSlice(et)
		}
		return nil
	}
	if strings.HasPrefix(s, "*[]") {
		if et := ex.resolveType(s[1:]); et != nil {
			return types.NewPointer(et)
		}
		return nil
	}
	ptr := strings.HasPrefix(s, "*")
	s = strings.TrimPrefix(s, "*")
	i := strings.LastIndex(s, ".")
	if i < 0 {
		return nil
	}
	pp, name := s[:i], s[i+1:]
	if !strings.Contains(pp, "/") && !strings.Contains(pp, ".") {
		// short package name: search packages by name (repo packages first)
		for _, path := range sortedKeys(ex.P.Pkgs) {
			p := ex.P.Pkgs[path]
			if p.Pkg.Name() == pp {
				if o := p.Pkg.Scope().Lookup(name); o != nil {
					pp = path
					break
				}
			}
		}
	}
	if !strings.Contains(pp, "/") && !inRepo(pp) {
		pp2 := "package-operator.run/" + pp
		if _, ok := ex.P.Pkgs[pp2]; ok {
			pp = pp2
		}
	}
	p := ex.P.Pkgs[pp]
	if p == nil {
		p = ex.P.Pkgs["package-operator.run/"+pp]
	}
	if p == nil {
		return nil
	}
	o := p.Pkg.Scope().Lookup(name)
	if o == nil {
		return nil
	}
	var t types.Type = o.Type()
	if ptr {
		t = types.NewPointer(t)
	}
	return t
}

// memFrame: all Go-memory arrays agree between a and b on locations that existed at function entry.
func (ec *EvalCtx) memFrame(a, b *MemState, withModels bool) string {
	ex := ec.ex
	if a == nil || b == nil {
		ec.fail("oldmem_unchanged needs an entry state")
	}
	seen := map[string]bool{}
	var ks []string
	for k := range ex.arrSorts { // all heap-cell and map classes known to the engine (scalar classes are pre-registered)
		if strings.HasPrefix(k, "M_") || strings.HasPrefix(k, "MH_") || strings.HasPrefix(k, "MV_") || k == "ML" {
			seen[k] = true
			ks = append(ks, k)
		}
	}
	for _, m := range []*MemState{a, b} {
		for k := range m.arrays {
			if seen[k] {
				continue
			}
			if strings.HasPrefix(k, "M_") || strings.HasPrefix(k, "MH_") || strings.HasPrefix(k, "MV_") || k == "ML" || (withModels && strings.HasPrefix(k, "F_")) {
				if md := ex.S.Models[strings.TrimPrefix(k, "F_")]; strings.HasPrefix(k, "F_") && (md == nil || md.Ghost || len(md.Params) == 0) {
					continue
				}
				seen[k] = true
				ks = append(ks, k)
			}
		}
	}
	sort.Strings(ks)
	var parts []string
	for _, k := range ks {
		x, y := ex.memGet(a, k), ex.memGet(b, k)
		if x == y {
			continue
		}
		if strings.HasPrefix(k, "F_") {
			md := ex.S.Models[strings.TrimPrefix(k, "F_")]
			if md == nil || len(md.Params) == 0 || md.Params[0].S != SInt {
				parts = append(parts, fmt.Sprintf("(= %s %s)", x, y))
				continue
			}
		}
		base := ec.frameBase
		if base == "" {
			base = "allocbase"
		}
		if len(ec.frameExcept["maps"]) > 0 && (strings.HasPrefix(k, "MH_") || strings.HasPrefix(k, "MV_") || k == "ML") {
			continue
		}
		cond := fmt.Sprintf("(<= (root a) %s)", base)
		if e := ec.frameExcept[k]; len(e) > 0 {
			cond = and(append([]string{cond}, e...)...)
		}
		if e := ec.frameExcept["M_*"]; len(e) > 0 && strings.HasPrefix(k, "M_") {
			cond = and(append([]string{cond}, e...)...)
		}
		parts = append(parts, fmt.Sprintf("(forall ((a Int)) (! (=> %s (= (select %s a) (select %s a))) :pattern ((select %s a))))", cond, x, y, y))
	}
	return and(parts...)
}

// argFor converts an argument to a parameter: object parameters take the object's identity.
func (ec *EvalCtx) argFor(v Val, p Param) Val {
	if p.Obj {
		return ec.objid(v)
	}
	return ec.coerce(v, p.S)
}

// objid: identity of a Kubernetes object. For *unstructured.Unstructured it is the content map (metadata lives in
// the map and by-value copies of the struct share it); for every other object it is the pointer.
func (ec *EvalCtx) objid(v Val) Val {
	ex := ec.ex
	ut := ex.unstructuredType()
	if v.S == "Nil" {
		return Val{T: "0", S: SInt}
	}
	if ut == nil {
		return ec.coerce(v, SInt)
	}
	ex.needUmap()
	mapAt := func(ptr string) string { return fmt.Sprintf("(umap %s)", ptr) }
	switch {
	case v.S == SInt && v.G != nil:
		if pt, ok := v.G.Underlying().(*types.Pointer); ok && types.Identical(pt.Elem(), ut) {
			return Val{T: mapAt(v.T), S: SInt}
		}
		return Val{T: v.T, S: SInt}
	case v.S == SInt:
		return v
	case v.S == SIface && isAdapterIface(v.G):
		// adapter interfaces (they have a ClientObject method) are never implemented by *unstructured.Unstructured
		return Val{T: fmt.Sprintf("(ival %s)", v.T), S: SInt}
	case v.S == SIface:
		tag := ex.D.tagOf(types.NewPointer(ut))
		return Val{T: fmt.Sprintf("(ite (= (itag %s) %d) %s (ival %s))", v.T, tag, mapAt(fmt.Sprintf("(ival %s)", v.T)), v.T), S: SInt}
	case v.G != nil && types.Identical(v.G, ut):
		si := ex.D.structOf(ut)
		return Val{T: fmt.Sprintf("(%s_f0 %s)", si.id, v.T), S: SInt}
	}
	return ec.coerce(v, SInt)
}

func (ex *Exec) unstructuredType() types.Type {
	p := ex.P.Pkgs["k8s.io/apimachinery/pkg/apis/meta/v1/unstructured"]
	if p == nil {
		return nil
	}
	o := p.Pkg.Scope().Lookup("Unstructured")
	if o == nil {
		return nil
	}
	return o.Type()
}

// needUmap declares umap: the content map an unstructured object has (or will get from its first setter).
// Invariant (stated for every base version of M_Ref and kept by stores): u.Object is nil or umap(u).
func (ex *Exec) needUmap() {
	if ex.declaredFun["umap"] {
		return
	}
	ex.declaredFun["umap"] = true
	ex.D.add("(declare-fun umap (Int) Int)")
	// objects that exist when the function starts already own their content map (assumption, listed in the evidence)
	ex.D.add("(assert (forall ((p Int)) (! (=> (<= (root p) allocbase) (<= (root (umap p)) allocbase)) :pattern ((umap p)))))")
}

func (ex *Exec) umapAxiom(arr string) {
	ut := ex.unstructuredType()
	if ut == nil {
		return
	}
	ex.needUmap()
	fa := ex.D.fieldAddr(ut, 0, "p")
	ex.emit("(assert (forall ((p Int)) (! (or (= (select %s %s) 0) (= (select %s %s) (umap p))) :pattern ((select %s %s)))))", arr, fa, arr, fa, arr, fa)
}

func isAdapterIface(t types.Type) bool {
	if t == nil {
		return false
	}
	it, ok := t.Underlying().(*types.Interface)
	if !ok {
		return false
	}
	for i := 0; i < it.NumMethods(); i++ {
		if it.Method(i).Name() == "ClientObject" {
			return true
		}
	}
	return false
}

// loopIndexTerm: the number of completed iterations of loop li ("idx" in contracts): for a range-over-slice loop the
// hidden range index + 1; for a counting loop (a loop-head phi that starts at the constant 0 and is incremented by
// the constant 1 on every back edge) the counter itself.
func (fr *Frame) loopIndexTerm(li *loopInfo) (string, bool) {
	if li == nil {
		return "", false
	}
	for _, in := range li.head.Instrs {
		if phi, ok := in.(*ssa.Phi); ok && phi.Comment == "rangeindex" {
			if v, ok := fr.vals[phi]; ok {
				return fmt.Sprintf("(+ %s 1)", v.T), true
			}
		}
	}
	for _, in := range li.head.Instrs {
		phi, ok := in.(*ssa.Phi)
		if !ok {
			break
		}
		if b, isB := phi.Type().Underlying().(*types.Basic); !isB || b.Info()&types.IsInteger == 0 {
			continue
		}
		okShape := len(phi.Edges) >= 2
		for i, e := range phi.Edges {
			pred := li.head.Preds[i]
			if li.body[pred] {
				bo, isBin := e.(*ssa.BinOp)
				if !isBin || bo.Op != token.ADD || bo.X != phi {
					okShape = false
					break
				}
				c, isC := bo.Y.(*ssa.Const)
				if !isC || c.Value == nil || c.Value.ExactString() != "1" {
					okShape = false
					break
				}
			} else {
				c, isC := e.(*ssa.Const)
				if !isC || c.Value == nil || c.Value.ExactString() != "0" {
					okShape = false
					break
				}
			}
		}
		if okShape {
			if v, ok := fr.vals[phi]; ok {
				return v.T, true
			}
		}
	}
	return "", false
}

// ---- rename-tolerant binding of contract names ----

// BindDesc says which variable a contract name denoted on the pinned tree: the i-th parameter, or the k-th of n
// variables of a type (in order of declaration).
type BindDesc struct {
	Kind  string `json:"kind"` // param | local
	Index int    `json:"index"`
	Type  string `json:"type,omitempty"`
	Count int    `json:"count,omitempty"`
}

func fnVars(fn *ssa.Function) []*types.Var {
	seen := map[*types.Var]bool{}
	var out []*types.Var
	for _, b := range fn.Blocks {
		for _, in := range b.Instrs {
			if d, ok := in.(*ssa.DebugRef); ok {
				if v, ok := d.Object().(*types.Var); ok && !seen[v] && !v.IsField() {
					seen[v] = true
					out = append(out, v)
				}
			}
		}
	}
	for _, p := range fn.Params {
		if v, ok := p.Object().(*types.Var); ok && !seen[v] {
			seen[v] = true
			out = append(out, v)
		}
	}
	sort.Slice(out, func(i, j int) bool { return out[i].Pos() < out[j].Pos() })
	return out
}

func describeVar(fn *ssa.Function, name string) *BindDesc {
	for i, p := range fn.Params {
		if p.Name() == name {
			return &BindDesc{Kind: "param", Index: i}
		}
	}
	vars := fnVars(fn)
	for _, v := range vars {
		if v.Name() != name {
			continue
		}
		ts := types.TypeString(v.Type(), nil)
		k, n := 0, 0
		for _, w := range vars {
			if types.TypeString(w.Type(), nil) == ts {
				if w == v {
					k = n
				}
				n++
			}
		}
		return &BindDesc{Kind: "local", Index: k, Type: ts, Count: n}
	}
	return nil
}

func (ex *Exec) recordBinding(fn *ssa.Function, name string) {
	if ex.bindRec == nil {
		return
	}
	key := canonName(fn)
	if ex.bindRec[key] == nil {
		ex.bindRec[key] = map[string]*BindDesc{}
	}
	if _, ok := ex.bindRec[key][name]; ok {
		return
	}
	if d := describeVar(fn, name); d != nil {
		ex.bindRec[key][name] = d
	}
}

// rebind: the present name of the variable that contract name n of fn denoted on the pinned tree ("" = unknown).
func (ex *Exec) rebind(fn *ssa.Function, n string) string {
	d := ex.bindings[canonName(fn)][n]
	if d == nil {
		return ""
	}
	if d.Kind == "param" {
		if d.Index < len(fn.Params) {
			return fn.Params[d.Index].Name()
		}
		return ""
	}
	var same []*types.Var
	for _, v := range fnVars(fn) {
		if types.TypeString(v.Type(), nil) == d.Type {
			same = append(same, v)
		}
	}
	if len(same) != d.Count || d.Index >= len(same) {
		return ""
	}
	return same[d.Index].Name()
}
