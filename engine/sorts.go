package main

import (
	"fmt"
	"go/types"
	"regexp"
	"strings"
)

// Sort is the SMT-LIB text of a sort.
type Sort string

const (
	SInt   Sort = "Int"
	SBool  Sort = "Bool"
	SStr   Sort = "Str"
	SIface Sort = "Iface"
	SSlice Sort = "Slice"
	SReal  Sort = "Real"
)

// Val is an SMT term with its sort and (optionally) the Go type it models.
type Val struct {
	T string
	S Sort
	G types.Type
}

// Decls collects on-demand declarations that are global to one function's script
// (datatypes for Go structs, address functions, type tags, string literals, spec functions).
type Decls struct {
	lines      []string
	structs    map[string]*structInfo // by type string
	structList []*structInfo
	fa         map[string]bool
	tags       map[string]int
	tagTypes   []types.Type
	strlits    map[string]string
	strlist    []string
	declared   map[string]bool
	ifaceImpl  map[string]types.Type // interface-key -> interface type for implements_ predicates
	kindCtr    int
	boxes      map[Sort]bool
}

type structInfo struct {
	id     string // S_3
	t      *types.Struct
	named  string
	fields []Sort
}

func newDecls() *Decls {
	return &Decls{structs: map[string]*structInfo{}, fa: map[string]bool{}, tags: map[string]int{}, strlits: map[string]string{},
		declared: map[string]bool{}, ifaceImpl: map[string]types.Type{}, boxes: map[Sort]bool{}, kindCtr: 10}
}

func (d *Decls) add(format string, a ...any) { d.lines = append(d.lines, fmt.Sprintf(format, a...)) }

func (d *Decls) declOnce(name, line string) {
	if d.declared[name] {
		return
	}
	d.declared[name] = true
	d.lines = append(d.lines, line)
}

const prelude = `(set-option :produce-models true)
(set-logic ALL)
(declare-sort Str 0)
(declare-datatypes ((Iface 0)) (((mkI (itag Int) (ival Int)))))
(declare-datatypes ((Slice 0)) (((mkS (sarr Int) (soff Int) (slen Int) (scap Int)))))
(declare-fun strlen (Str) Int)
(assert (forall ((s Str)) (! (>= (strlen s) 0) :pattern ((strlen s)))))
(declare-fun strcat (Str Str) Str)
(assert (forall ((a Str) (b Str)) (! (= (strlen (strcat a b)) (+ (strlen a) (strlen b))) :pattern ((strcat a b)))))
(declare-const str_empty Str)
(assert (= (strlen str_empty) 0))
(assert (forall ((s Str)) (! (=> (= (strlen s) 0) (= s str_empty)) :pattern ((strlen s)))))
(declare-fun akind (Int) Int)
(declare-fun root (Int) Int)
(declare-fun ea (Int Int) Int)
; aty(r): element type of the slice backing array allocated at root r (slices of different element types never share an allocation — stated assumption)
(declare-fun aty (Int) Int)
(declare-fun ea_arr (Int) Int)
(declare-fun ea_idx (Int) Int)
(assert (forall ((a Int) (i Int)) (! (and (= (ea_arr (ea a i)) a) (= (ea_idx (ea a i)) i) (= (akind (ea a i)) 1) (= (root (ea a i)) (root a)) (not (= (ea a i) 0))) :pattern ((ea a i)))))
(declare-fun elemaddr (Slice Int) Int)
(assert (forall ((s Slice) (i Int)) (! (= (elemaddr s i) (ea (sarr s) (+ (soff s) i))) :pattern ((elemaddr s i)))))
(declare-const allocbase Int)
(assert (> allocbase 0))
(declare-fun chainHas (Iface Int) Bool)
(declare-fun libErr (Iface) Bool)
(assert (forall ((e Iface)) (! (=> (not (= (itag e) 0)) (chainHas e (itag e))) :pattern ((itag e)))))
(assert (forall ((t Int)) (! (not (chainHas (mkI 0 0) t)) :pattern ((chainHas (mkI 0 0) t)))))
`

func sanitize(s string) string {
	var b strings.Builder
	for _, r := range s {
		switch {
		case r >= 'a' && r <= 'z', r >= 'A' && r <= 'Z', r >= '0' && r <= '9', r == '_':
			b.WriteRune(r)
		default:
			b.WriteRune('_')
		}
	}
	return b.String()
}

func sortID(s Sort) string { return sanitize(string(s)) }

// sortOf maps a Go type to its SMT sort, declaring datatypes on demand.
func (d *Decls) sortOf(t types.Type) Sort {
	switch u := t.Underlying().(type) {
	case *types.Basic:
		switch {
		case u.Info()&types.IsBoolean != 0:
			return SBool
		case u.Info()&types.IsInteger != 0:
			return SInt
		case u.Info()&types.IsString != 0:
			return SStr
		case u.Info()&types.IsFloat != 0:
			return SReal
		case u.Kind() == types.UnsafePointer, u.Kind() == types.UntypedNil:
			return SInt
		}
		return SInt
	case *types.Pointer, *types.Map, *types.Chan, *types.Signature:
		return SInt
	case *types.Interface:
		return SIface
	case *types.Slice:
		return SSlice
	case *types.Struct:
		return Sort(d.structOf(t).id)
	case *types.Array:
		return Sort(fmt.Sprintf("(Array Int %s)", d.sortOf(u.Elem())))
	case *types.Tuple:
		return "Tuple"
	case *types.TypeParam:
		return SIface
	}
	return SInt
}

var anyRe = regexp.MustCompile(`\bany\b`)

// typeKey is a canonical text of a type ("any" and "interface{}" are the same type).
func typeKey(t types.Type) string { return anyRe.ReplaceAllString(types.TypeString(t, nil), "interface{}") }

func (d *Decls) structOf(t types.Type) *structInfo {
	key := typeKey(t)
	if si, ok := d.structs[key]; ok {
		return si
	}
	st := t.Underlying().(*types.Struct)
	si := &structInfo{id: structSortName(t), t: st, named: key}
	d.structs[key] = si
	d.structList = append(d.structList, si)
	var fs []string
	for i := 0; i < st.NumFields(); i++ {
		fs0 := d.sortOf(st.Field(i).Type())
		si.fields = append(si.fields, fs0)
		fs = append(fs, fmt.Sprintf("(%s_f%d %s)", si.id, i, fs0))
	}
	if len(fs) == 0 {
		d.add("(declare-datatypes ((%s 0)) (((mk_%s))))", si.id, si.id)
	} else {
		d.add("(declare-datatypes ((%s 0)) (((mk_%s %s))))", si.id, si.id, strings.Join(fs, " "))
	}
	return si
}

// fieldAddr returns the address term of field i of struct type t at base address p.
func (d *Decls) fieldAddr(t types.Type, i int, p string) string {
	si := d.structOf(t)
	fn := fmt.Sprintf("fa_%s_%d", si.id, i)
	if !d.fa[fn] {
		d.fa[fn] = true
		d.kindCtr++
		d.add("(declare-fun %s (Int) Int)", fn)
		d.add("(declare-fun %s_inv (Int) Int)", fn)
		d.add("(assert (forall ((x Int)) (! (and (= (%s_inv (%s x)) x) (= (akind (%s x)) %d) (= (root (%s x)) (root x)) (not (= (%s x) 0))) :pattern ((%s x)))))", fn, fn, fn, d.kindCtr, fn, fn, fn)
	}
	return fmt.Sprintf("(%s %s)", fn, p)
}

func (d *Decls) tagOf(t types.Type) int {
	key := typeKey(t)
	if n, ok := d.tags[key]; ok {
		return n
	}
	n := len(d.tagTypes) + 1
	d.tags[key] = n
	d.tagTypes = append(d.tagTypes, t)
	if declaredInRepo(t) {
		// closed world: errors produced by dependencies never carry a /repo-declared type in their chain
		d.add("(assert (forall ((e Iface)) (! (=> (libErr e) (not (chainHas e %d))) :pattern ((chainHas e %d)))))", n, n)
	}
	// implements facts for all known interfaces
	for ik, it := range d.ifaceImpl {
		d.implFact(ik, it, t, n)
	}
	return n
}

func (d *Decls) implFact(ik string, it types.Type, t types.Type, tag int) {
	iface, _ := it.Underlying().(*types.Interface)
	if iface == nil {
		return
	}
	if types.Implements(t, iface) {
		d.add("(assert (implements_%s %d))", ik, tag)
	} else {
		d.add("(assert (not (implements_%s %d)))", ik, tag)
	}
}

// implementsPred returns the name of the predicate "dynamic type tag implements interface it".
func (d *Decls) implementsPred(it types.Type) string {
	ik := sanitize(typeKey(it))
	if len(ik) > 60 {
		ik = fmt.Sprintf("%s_%d", ik[:60], len(d.ifaceImpl))
	}
	for k, v := range d.ifaceImpl {
		if types.Identical(v, it) {
			return "implements_" + k
		}
	}
	d.ifaceImpl[ik] = it
	d.add("(declare-fun implements_%s (Int) Bool)", ik)
	d.add("(assert (not (implements_%s 0)))", ik)
	for i, t := range d.tagTypes {
		d.implFact(ik, it, t, i+1)
	}
	return "implements_" + ik
}

func (d *Decls) strLit(s string) string {
	if s == "" {
		return "str_empty"
	}
	if n, ok := d.strlits[s]; ok {
		return n
	}
	n := fmt.Sprintf("strlit_%d", len(d.strlist))
	d.strlits[s] = n
	d.add("(declare-const %s Str) ; %q", n, trunc(s, 60))
	d.add("(assert (= (strlen %s) %d))", n, len(s))
	for _, o := range d.strlist {
		d.add("(assert (not (= %s %s)))", n, d.strlits[o])
	}
	d.strlist = append(d.strlist, s)
	return n
}

func trunc(s string, n int) string {
	s = strings.ReplaceAll(s, "\n", "\\n")
	if len(s) > n {
		return s[:n] + "..."
	}
	return s
}

// box/unbox non-pointer values into interface payloads.
func (d *Decls) box(s Sort, v string) string {
	if s == SInt {
		return v
	}
	id := sortID(s)
	if !d.boxes[s] {
		d.boxes[s] = true
		d.add("(declare-fun box_%s (%s) Int)", id, s)
		d.add("(declare-fun unbox_%s (Int) %s)", id, s)
		d.add("(assert (forall ((x %s)) (! (= (unbox_%s (box_%s x)) x) :pattern ((box_%s x)))))", s, id, id, id)
	}
	return fmt.Sprintf("(box_%s %s)", id, v)
}

func (d *Decls) unbox(s Sort, v string) string {
	if s == SInt {
		return v
	}
	d.box(s, "x") // ensure declared
	return fmt.Sprintf("(unbox_%s %s)", sortID(s), v)
}

func isPointerLike(t types.Type) bool {
	switch t.Underlying().(type) {
	case *types.Pointer, *types.Map, *types.Chan, *types.Signature:
		return true
	case *types.Basic:
		return t.Underlying().(*types.Basic).Kind() == types.UnsafePointer
	}
	return false
}

// zero returns the zero value term of sort s.
func (d *Decls) zero(t types.Type) string {
	switch u := t.Underlying().(type) {
	case *types.Struct:
		si := d.structOf(t)
		if u.NumFields() == 0 {
			return "mk_" + si.id
		}
		var fs []string
		for i := 0; i < u.NumFields(); i++ {
			fs = append(fs, d.zero(u.Field(i).Type()))
		}
		return fmt.Sprintf("(mk_%s %s)", si.id, strings.Join(fs, " "))
	case *types.Array:
		return fmt.Sprintf("((as const %s) %s)", d.sortOf(t), d.zero(u.Elem()))
	}
	return zeroOfSort(d.sortOf(t))
}

func zeroOfSort(s Sort) string {
	switch s {
	case SInt:
		return "0"
	case SBool:
		return "false"
	case SStr:
		return "str_empty"
	case SIface:
		return "(mkI 0 0)"
	case SSlice:
		return "(mkS 0 0 0 0)"
	case SReal:
		return "0.0"
	}
	return "0"
}

func intLit(n int64) string {
	if n < 0 {
		return fmt.Sprintf("(- %d)", -n)
	}
	return fmt.Sprintf("%d", n)
}

func and(xs ...string) string {
	var ys []string
	for _, x := range xs {
		if x == "true" || x == "" {
			continue
		}
		if x == "false" {
			return "false"
		}
		ys = append(ys, x)
	}
	switch len(ys) {
	case 0:
		return "true"
	case 1:
		return ys[0]
	}
	return "(and " + strings.Join(ys, " ") + ")"
}

func or(xs ...string) string {
	var ys []string
	for _, x := range xs {
		if x == "false" || x == "" {
			continue
		}
		if x == "true" {
			return "true"
		}
		ys = append(ys, x)
	}
	switch len(ys) {
	case 0:
		return "false"
	case 1:
		return ys[0]
	}
	return "(or " + strings.Join(ys, " ") + ")"
}

func not(x string) string {
	switch x {
	case "true":
		return "false"
	case "false":
		return "true"
	}
	if strings.HasPrefix(x, "(not ") && balanced(x[5:len(x)-1]) {
		return x[5 : len(x)-1]
	}
	return "(not " + x + ")"
}

func balanced(s string) bool {
	d := 0
	for _, c := range s {
		if c == '(' {
			d++
		} else if c == ')' {
			d--
			if d < 0 {
				return false
			}
		}
	}
	return d == 0
}

func implies(a, b string) string {
	if a == "true" {
		return b
	}
	if a == "false" || b == "true" {
		return "true"
	}
	return "(=> " + a + " " + b + ")"
}

func ite(c, a, b string) string {
	if c == "true" {
		return a
	}
	if c == "false" {
		return b
	}
	if a == b {
		return a
	}
	return "(ite " + c + " " + a + " " + b + ")"
}

func declaredInRepo(t types.Type) bool {
	if p, ok := t.(*types.Pointer); ok {
		t = p.Elem()
	}
	n, ok := t.(*types.Named)
	if !ok || n.Obj().Pkg() == nil {
		return false
	}
	return inRepo(n.Obj().Pkg().Path())
}

// structSortName: deterministic SMT datatype name of a Go struct type (stable across runs and functions,
// so that spec files can name it through "gosort").
func structSortName(t types.Type) string {
	key := typeKey(t)
	name := "anon"
	if n, ok := t.(*types.Named); ok {
		name = n.Obj().Name()
	}
	return fmt.Sprintf("S_%s_%x", sanitize(name), hashStr(key))
}
