package main

import (
	"fmt"
	"os"
	"path/filepath"
	"sort"
	"strconv"
	"strings"
)

// ---- specification objects ----

type Param struct {
	Name string
	S    Sort
	Obj  bool // declared with sort name "obj": object identity (content map for unstructured objects)
}

type ModelDecl struct {
	Name   string
	Params []Param
	Ret    Sort
	Ghost  bool // pure ghost: only ghost clauses of /repo contracts change it (library code cannot)
}

type UFunDecl struct {
	Name   string
	Params []Param
	Ret    Sort
}

type DefDecl struct {
	Name   string
	Params []Param
	Ret    Sort
	Body   Expr
	Src    string
}

type Clause struct {
	E    Expr
	Src  string
	Optional bool // "invariant?": dropped (not failed) when it does not type-check or is not inductive
	Prop []string // property ids this clause serves ("" = all)
	Line string   // file:line
}

type AssignTarget struct {
	All    bool   // *
	Mem    bool   // all Go memory
	Model  string // model field name
	Arg    Expr   // row (nil = whole array)
	Deref  Expr   // Go memory location *e / e.f (lvalue expression)
	AllocClass string // restrict alloc(p, "Str") to one leaf class
	Alloc  Expr   // alloc(p): every cell of the allocation p points into (plus function-local maps), e.g. the target of Unmarshal
	Spare  Expr   // sparecap(s): the elements of s's backing array beyond len(s) (what append may write in place)
	Nothing bool
	Maps    bool // the contents of Go maps (all of them)
}

type LoopSpec struct {
	OrderFree []string // property tags: the loop ranges over a map and must not depend on iteration order
	IsOrderFree bool
	Ord     int
	Invs    []Clause
	Assigns []AssignTarget // optional (nil = computed)
}

type SiteSpec struct {
	Callee string // substring of callee name
	Ord    int    // 1-based among matching call sites in source order; 0 = all
	Kind   string // sink | assert | ghost
	Cl     Clause
	Ghost  *GhostSet
	After  bool // evaluated after the call (result / resultN bound) instead of before it
}

type Contract struct {
	Key      string // canonical function name or lib/iface key
	Kind     string // func | lib | iface
	Requires []Clause
	Ensures  []Clause
	Assigns  []AssignTarget
	HasAssigns bool
	Pure     bool // function of args
	Readonly bool // no state change
	Inline   bool
	Trusted  bool
	NoReturnNil []int
	Loops    map[int]*LoopSpec
	AnchoredLoops map[string]int // callee pattern -> (negative) key in Loops
	Sites    []SiteSpec
	Fresh    []string // result names that are freshly allocated
	Props    []string // properties this contract belongs to
	File     string
	ParamNames []string // optional rename of positional params (lib/iface)
	Panics   []Clause // allowed panic conditions
	Alias    string
	Returns  string
	Ghosts   []GhostSet
	Stables  []Clause // facts about lock-protected state that no other thread can invalidate (assumed again after Lock)
}

type GhostSet struct {
	Model string
	Arg   Expr
	Val   Clause
}

type Specs struct {
	Models    map[string]*ModelDecl
	UFuns     map[string]*UFunDecl
	Defs      map[string]*DefDecl
	Axioms    []Clause
	Consts    map[string]Clause
	Contracts map[string]*Contract // by key
	Order     []string
	SortAlias map[string]Sort
	Aliases   map[string]*Contract
	ConstGlobals map[string]bool
	TypeResolver func(name string) (Sort, error)
	LockInvs     []LockInv
	Placeholders []string
	GoSortTypes  []string
	Guarded      []GuardedField
}

type LockInv struct {
	Struct, Field string
	Cl            Clause
}

type GuardedField struct{ Struct, Field, Mutex string }

func newSpecs() *Specs {
	return &Specs{Models: map[string]*ModelDecl{}, UFuns: map[string]*UFunDecl{}, Defs: map[string]*DefDecl{}, Consts: map[string]Clause{},
		Contracts: map[string]*Contract{}, Aliases: map[string]*Contract{}, ConstGlobals: map[string]bool{}, SortAlias: map[string]Sort{
			"int": SInt, "Int": SInt, "bool": SBool, "Bool": SBool, "string": SStr, "Str": SStr, "ref": SInt, "obj": SInt, "Ref": SInt,
			"Iface": SIface, "iface": SIface, "error": SIface, "Slice": SSlice, "slice": SSlice,
			"IntSet": "(Array Int Bool)", "StrSet": "(Array Str Bool)", "IntMap": "(Array Int Int)", "StrMap": "(Array Str Str)", "StrBoolMap": "(Array Str Bool)",
		}}
}

func (s *Specs) sortByName(n string) (Sort, error) {
	if v, ok := s.SortAlias[n]; ok {
		return v, nil
	}
	return "", fmt.Errorf("unknown sort %q", n)
}

var clauseKeywords = map[string]bool{"func": true, "lib": true, "iface": true, "model": true, "ghostmodel": true, "ufun": true, "def": true, "axiom": true, "const": true,
	"requires": true, "ensures": true, "assigns": true, "pure": true, "readonly": true, "inline": true, "loop": true, "sink": true, "at": true, "after": true, "never": true,
	"trusted": true, "alias": true, "returns": true, "also": true, "like": true, "fresh": true, "panics": true, "props": true, "sort": true, "params": true, "constglobal": true, "ghost": true, "gosort": true, "lockinv": true, "guarded": true, "stable": true}

// loadSpecFile parses one contract/spec file. Lines may carry a "//@" prefix (Go comment-only contract files).
func (s *Specs) loadSpecFile(path string) error {
	data, err := os.ReadFile(path)
	if err != nil {
		return err
	}
	isGo := strings.HasSuffix(path, ".go")
	type rawLine struct {
		text string
		no   int
	}
	var logical []rawLine
	for i, ln := range strings.Split(string(data), "\n") {
		t := strings.TrimSpace(ln)
		if isGo {
			if !strings.HasPrefix(t, "//@") {
				continue
			}
			t = strings.TrimSpace(strings.TrimPrefix(t, "//@"))
		}
		if t == "" || strings.HasPrefix(t, "#") || strings.HasPrefix(t, "//") {
			continue
		}
		// strip trailing comment introduced by " //"
		if j := strings.Index(t, " // "); j >= 0 && !strings.Contains(t[:j], "\"") {
			t = strings.TrimSpace(t[:j])
		}
		first := t
		if j := strings.IndexAny(t, " \t("); j >= 0 {
			first = t[:j]
		}
		if clauseKeywords[first] || len(logical) == 0 {
			logical = append(logical, rawLine{t, i + 1})
		} else {
			logical[len(logical)-1].text += " " + t
		}
	}
	var cur *Contract
	var curProps []string
	for _, rl := range logical {
		t := rl.text
		kw := t
		rest := ""
		if j := strings.IndexAny(t, " \t"); j >= 0 {
			kw, rest = t[:j], strings.TrimSpace(t[j+1:])
		}
		where := fmt.Sprintf("%s:%d", filepath.Base(path), rl.no)
		mkClause := func(src string) (Clause, error) {
			// optional leading [C01,C02]
			var props []string
			src = strings.TrimSpace(src)
			if strings.HasPrefix(src, "[") {
				if j := strings.Index(src, "]"); j > 0 {
					for _, p := range strings.Split(src[1:j], ",") {
						props = append(props, strings.TrimSpace(p))
					}
					src = strings.TrimSpace(src[j+1:])
				}
			}
			e, err := parseExpr(src)
			if err != nil {
				return Clause{}, fmt.Errorf("%s: %v", where, err)
			}
			return Clause{E: e, Src: src, Prop: props, Line: where}, nil
		}
		switch kw {
		case "props":
			curProps = nil
			for _, p := range strings.Split(rest, ",") {
				curProps = append(curProps, strings.TrimSpace(p))
			}
			cur = nil // a props line starts a new group; it never re-tags the contract before it
		case "gosort":
			// gosort Alias full/pkg/path.TypeName : the SMT datatype of a Go struct type
			f := strings.Fields(rest)
			if len(f) != 2 || s.TypeResolver == nil {
				return fmt.Errorf("%s: bad gosort (or no program loaded)", where)
			}
			so, err := s.TypeResolver(f[1])
			if err != nil {
				// the package is not loaded for this check: an opaque sort keeps the specs well-formed
				so = Sort("Unloaded_" + f[0])
				s.Placeholders = append(s.Placeholders, string(so))
			}
			s.SortAlias[f[0]] = so
			s.GoSortTypes = append(s.GoSortTypes, f[1])
		case "lockinv":
			// lockinv pkg.Struct.mutexField : E   (E over "self")
			parts := strings.SplitN(rest, ":", 2)
			if len(parts) != 2 {
				return fmt.Errorf("%s: bad lockinv", where)
			}
			name := strings.TrimSpace(parts[0])
			i := strings.LastIndex(name, ".")
			c, err := mkClause(parts[1])
			if err != nil {
				return err
			}
			s.LockInvs = append(s.LockInvs, LockInv{Struct: name[:i], Field: name[i+1:], Cl: c})
		case "guarded":
			// guarded pkg.Struct.field by mutexField
			f := strings.Fields(rest)
			if len(f) != 3 || f[1] != "by" {
				return fmt.Errorf("%s: bad guarded clause", where)
			}
			i := strings.LastIndex(f[0], ".")
			s.Guarded = append(s.Guarded, GuardedField{Struct: f[0][:i], Field: f[0][i+1:], Mutex: f[2]})
		case "constglobal":
			s.ConstGlobals[rest] = true
		case "sort":
			// sort Name = smt-sort-text
			parts := strings.SplitN(rest, "=", 2)
			if len(parts) != 2 {
				return fmt.Errorf("%s: bad sort alias", where)
			}
			s.SortAlias[strings.TrimSpace(parts[0])] = Sort(strings.TrimSpace(parts[1]))
		case "func", "lib", "iface":
			key := rest
			cur = &Contract{Key: key, Kind: kw, Loops: map[int]*LoopSpec{}, File: where, Props: curProps}
			if old, ok := s.Contracts[key]; ok {
				return fmt.Errorf("%s: duplicate contract for %s (first at %s)", where, key, old.File)
			}
			s.Contracts[key] = cur
			s.Order = append(s.Order, key)
		case "model", "ufun", "ghostmodel":
			name, ps, ret, _, err := s.parseSig(rest, false)
			if err != nil {
				return fmt.Errorf("%s: %v", where, err)
			}
			if kw == "model" || kw == "ghostmodel" {
				s.Models[name] = &ModelDecl{name, ps, ret, kw == "ghostmodel"}
			} else {
				s.UFuns[name] = &UFunDecl{name, ps, ret}
			}
		case "def":
			name, ps, ret, body, err := s.parseSig(rest, true)
			if err != nil {
				return fmt.Errorf("%s: %v", where, err)
			}
			e, err := parseExpr(body)
			if err != nil {
				return fmt.Errorf("%s: %v", where, err)
			}
			s.Defs[name] = &DefDecl{name, ps, ret, e, body}
		case "axiom":
			c, err := mkClause(rest)
			if err != nil {
				return err
			}
			s.Axioms = append(s.Axioms, c)
		case "const":
			// const name = expr
			parts := strings.SplitN(rest, "=", 2)
			if len(parts) != 2 {
				return fmt.Errorf("%s: bad const", where)
			}
			c, err := mkClause(parts[1])
			if err != nil {
				return err
			}
			s.Consts[strings.TrimSpace(parts[0])] = c
		default:
			if cur == nil {
				return fmt.Errorf("%s: clause %q outside a contract", where, kw)
			}
			switch kw {
			case "stable":
				c, err := mkClause(rest)
				if err != nil {
					return err
				}
				cur.Stables = append(cur.Stables, c)
			case "requires", "ensures", "panics":
				c, err := mkClause(strings.TrimPrefix(rest, "when "))
				if err != nil {
					return err
				}
				switch kw {
				case "requires":
					cur.Requires = append(cur.Requires, c)
				case "ensures":
					cur.Ensures = append(cur.Ensures, c)
				default:
					cur.Panics = append(cur.Panics, c)
				}
			case "pure":
				cur.Pure, cur.Readonly = true, true
			case "readonly":
				cur.Readonly = true
			case "inline":
				cur.Inline = true
			case "trusted":
				cur.Trusted = true
			case "also":
				for _, k := range strings.Split(rest, "|") {
					k = strings.TrimSpace(k)
					if k == "" {
						continue
					}
					if old, ok := s.Contracts[k]; ok && old != cur {
						return fmt.Errorf("%s: duplicate contract for %s (first at %s)", where, k, old.File)
					}
					s.Contracts[k] = cur
				}
			case "like":
				src := s.Contracts[rest]
				if src == nil {
					return fmt.Errorf("%s: like: unknown contract %q (must be defined earlier)", where, rest)
				}
				cur.Requires = append(cur.Requires, src.Requires...)
				cur.Ensures = append(cur.Ensures, src.Ensures...)
				cur.Assigns = append(cur.Assigns, src.Assigns...)
				cur.HasAssigns = cur.HasAssigns || src.HasAssigns
				cur.Readonly = cur.Readonly || src.Readonly
				cur.Fresh = append(cur.Fresh, src.Fresh...)
			case "ghost":
				// ghost name() := E   |  ghost name(arg) := E   (executed at every return of the function under contract)
				parts := strings.SplitN(rest, ":=", 2)
				if len(parts) != 2 {
					return fmt.Errorf("%s: bad ghost clause", where)
				}
				lhs, err := parseExpr(strings.TrimSpace(parts[0]))
				if err != nil {
					return fmt.Errorf("%s: %v", where, err)
				}
				call, ok := lhs.(*ECall)
				if !ok || len(call.Args) > 1 {
					return fmt.Errorf("%s: ghost target must be model() or model(x)", where)
				}
				c, err := mkClause(parts[1])
				if err != nil {
					return err
				}
				g := GhostSet{Model: call.Fn, Val: c}
				if len(call.Args) == 1 {
					g.Arg = call.Args[0]
				}
				cur.Ghosts = append(cur.Ghosts, g)
			case "returns":
				cur.Returns = rest
			case "alias":
				cur.Alias = rest
				s.Aliases[rest] = cur
			case "fresh":
				for _, n := range strings.Split(rest, ",") {
					cur.Fresh = append(cur.Fresh, strings.TrimSpace(n))
				}
			case "params":
				for _, n := range strings.Split(rest, ",") {
					cur.ParamNames = append(cur.ParamNames, strings.TrimSpace(n))
				}
			case "assigns":
				ts, err := parseAssigns(rest)
				if err != nil {
					return fmt.Errorf("%s: %v", where, err)
				}
				cur.Assigns = append(cur.Assigns, ts...)
				cur.HasAssigns = true
			case "loop":
				// loop N invariant E | loop N assigns ...
				f := strings.Fields(rest)
				if len(f) == 2 && f[1] == "orderfree" {
					f = append(f, "")
				}
				if len(f) < 3 {
					return fmt.Errorf("%s: bad loop clause", where)
				}
				var n int
				if strings.HasPrefix(f[0], "@") {
					// loop @callee …: the innermost loop whose body calls callee (robust against other loops being added or moved)
					if cur.AnchoredLoops == nil {
						cur.AnchoredLoops = map[string]int{}
					}
					key := strings.TrimPrefix(f[0], "@")
					if v, ok := cur.AnchoredLoops[key]; ok {
						n = v
					} else {
						n = -1 - len(cur.AnchoredLoops)
						cur.AnchoredLoops[key] = n
					}
				} else {
					var err error
					n, err = strconv.Atoi(f[0])
					if err != nil {
						return fmt.Errorf("%s: loop ordinal: %v", where, err)
					}
				}
				ls := cur.Loops[n]
				if ls == nil {
					ls = &LoopSpec{Ord: n}
					cur.Loops[n] = ls
				}
				body := strings.TrimSpace(strings.TrimPrefix(strings.TrimSpace(strings.TrimPrefix(rest, f[0])), f[1]))
				switch f[1] {
				case "invariant", "invariant?":
					c, err := mkClause(body)
					if err != nil {
						return err
					}
					c.Optional = f[1] == "invariant?"
					ls.Invs = append(ls.Invs, c)
				case "orderfree":
					ls.IsOrderFree = true
				case "assigns":
					ts, err := parseAssigns(body)
					if err != nil {
						return fmt.Errorf("%s: %v", where, err)
					}
					ls.Assigns = append(ls.Assigns, ts...)
					if ls.Assigns == nil {
						ls.Assigns = []AssignTarget{}
					}
				default:
					return fmt.Errorf("%s: bad loop clause kind %q", where, f[1])
				}
			case "never":
				// never Callee [Pn,...]: no call of Callee in the function or in helpers inlined into it
				f := strings.Fields(rest)
				if len(f) < 1 {
					return fmt.Errorf("%s: bad never clause", where)
				}
				c, err := mkClause(strings.TrimSpace(strings.TrimPrefix(rest, f[0])) + " false")
				if err != nil {
					return err
				}
				c.Src = "never " + rest
				cur.Sites = append(cur.Sites, SiteSpec{Callee: f[0], Kind: "never", Cl: c})
			case "sink", "at", "after":
				// sink Callee#n requires E   |  at Callee#n assert E
				f := strings.Fields(rest)
				if len(f) < 3 {
					return fmt.Errorf("%s: bad %s clause", where, kw)
				}
				callee, ord := f[0], 0
				if j := strings.LastIndex(callee, "#"); j >= 0 {
					ord, err = strconv.Atoi(callee[j+1:])
					if err != nil {
						return fmt.Errorf("%s: bad ordinal", where)
					}
					callee = callee[:j]
				}
				body := strings.TrimSpace(strings.TrimPrefix(strings.TrimSpace(strings.TrimPrefix(rest, f[0])), f[1]))
				kind := "sink"
				if kw == "at" || kw == "after" {
					kind = f[1] // assert | ghost
				}
				isAfter := kw == "after"
				if kind == "ghost" {
					parts := strings.SplitN(body, ":=", 2)
					if len(parts) != 2 {
						return fmt.Errorf("%s: bad ghost site clause", where)
					}
					lhs, err := parseExpr(strings.TrimSpace(parts[0]))
					if err != nil {
						return fmt.Errorf("%s: %v", where, err)
					}
					call, ok := lhs.(*ECall)
					if !ok || len(call.Args) > 1 {
						return fmt.Errorf("%s: ghost target must be model() or model(x)", where)
					}
					c, err := mkClause(parts[1])
					if err != nil {
						return err
					}
					g := &GhostSet{Model: call.Fn, Val: c}
					if len(call.Args) == 1 {
						g.Arg = call.Args[0]
					}
					cur.Sites = append(cur.Sites, SiteSpec{Callee: callee, Ord: ord, Kind: kind, Cl: c, Ghost: g, After: isAfter})
					break
				}
				c, err := mkClause(body)
				if err != nil {
					return err
				}
				cur.Sites = append(cur.Sites, SiteSpec{Callee: callee, Ord: ord, Kind: kind, Cl: c, After: isAfter})
			}
		}
	}
	return nil
}

func parseAssigns(src string) ([]AssignTarget, error) {
	var out []AssignTarget
	for _, part := range splitTop(src, ',') {
		p := strings.TrimSpace(part)
		switch {
		case p == "":
		case p == "*":
			out = append(out, AssignTarget{All: true})
		case p == "mem":
			out = append(out, AssignTarget{Mem: true})
		case p == "nothing":
			out = append(out, AssignTarget{Nothing: true})
		case p == "maps":
			out = append(out, AssignTarget{Maps: true})
		default:
			e, err := parseExpr(p)
			if err != nil {
				return nil, err
			}
			switch x := e.(type) {
			case *ECall:
				if x.Fn == "alloc" && (len(x.Args) == 1 || len(x.Args) == 2) {
					t := AssignTarget{Alloc: x.Args[0]}
					if len(x.Args) == 2 {
						// alloc(p, "Str"): only cells of that leaf class (M_Str) inside the allocation
						if l, ok := x.Args[1].(*ELit); ok {
							t.AllocClass = "M_" + l.Val
						} else {
							return nil, fmt.Errorf("assigns %s: second argument of alloc must be a leaf class literal such as \"Str\"", p)
						}
					}
					out = append(out, t)
					continue
				}
				if x.Fn == "sparecap" && len(x.Args) == 1 {
					out = append(out, AssignTarget{Spare: x.Args[0]})
					continue
				}
				t := AssignTarget{Model: x.Fn}
				if len(x.Args) == 1 {
					if u, ok := x.Args[0].(*EUn); ok && u.Op == "*" && u.X == nil {
						// never produced by parser
					}
					t.Arg = x.Args[0]
				} else if len(x.Args) > 1 {
					return nil, fmt.Errorf("assigns %s: at most one row argument", p)
				}
				out = append(out, t)
			case *EIdent:
				out = append(out, AssignTarget{Model: x.Name})
			default:
				out = append(out, AssignTarget{Deref: e})
			}
		}
	}
	return out, nil
}

func splitTop(s string, sep byte) []string {
	var out []string
	depth := 0
	last := 0
	inStr := false
	for i := 0; i < len(s); i++ {
		c := s[i]
		if c == '"' {
			inStr = !inStr
		}
		if inStr {
			continue
		}
		switch c {
		case '(', '[', '{':
			depth++
		case ')', ']', '}':
			depth--
		}
		if c == sep && depth == 0 {
			out = append(out, s[last:i])
			last = i + 1
		}
	}
	out = append(out, s[last:])
	return out
}

// parseSig parses "name(p Sort, q Sort) Ret [= body]".
func (s *Specs) parseSig(src string, withBody bool) (string, []Param, Sort, string, error) {
	body := ""
	if withBody {
		j := strings.Index(src, "=")
		// find the '=' after the closing paren + ret sort
		cp := strings.Index(src, ")")
		if cp < 0 {
			return "", nil, "", "", fmt.Errorf("bad signature %q", src)
		}
		j = strings.Index(src[cp:], "=")
		if j < 0 {
			return "", nil, "", "", fmt.Errorf("def needs a body: %q", src)
		}
		body = strings.TrimSpace(src[cp+j+1:])
		src = strings.TrimSpace(src[:cp+j])
	}
	op := strings.Index(src, "(")
	cp := strings.LastIndex(src, ")")
	if op < 0 || cp < op {
		return "", nil, "", "", fmt.Errorf("bad signature %q", src)
	}
	name := strings.TrimSpace(src[:op])
	var ps []Param
	for _, part := range splitTop(src[op+1:cp], ',') {
		f := strings.Fields(part)
		if len(f) == 0 {
			continue
		}
		if len(f) != 2 {
			return "", nil, "", "", fmt.Errorf("bad parameter %q", part)
		}
		so, err := s.sortByName(f[1])
		if err != nil {
			return "", nil, "", "", err
		}
		ps = append(ps, Param{f[0], so, f[1] == "obj"})
	}
	rs := strings.TrimSpace(src[cp+1:])
	ret, err := s.sortByName(rs)
	if err != nil {
		return "", nil, "", "", err
	}
	return name, ps, ret, body, nil
}

// loadSpecDir loads all *.spec files of a directory tree and all contract files.
func (s *Specs) loadDir(dir string, exts ...string) error {
	var files []string
	_ = filepath.Walk(dir, func(p string, info os.FileInfo, err error) error {
		if err != nil || info.IsDir() {
			return nil
		}
		for _, e := range exts {
			if strings.HasSuffix(p, e) {
				files = append(files, p)
			}
		}
		return nil
	})
	sort.Strings(files)
	for _, f := range files {
		if err := s.loadSpecFile(f); err != nil {
			return err
		}
	}
	return nil
}

func (m *ModelDecl) arraySort() Sort {
	so := m.Ret
	for i := len(m.Params) - 1; i >= 0; i-- {
		so = Sort(fmt.Sprintf("(Array %s %s)", m.Params[i].S, so))
	}
	return so
}

func clauseApplies(c Clause, prop string) bool {
	if true { // all clauses are generated; obligations are attributed to properties when reporting
		return true
	}
	if len(c.Prop) == 0 || prop == "" {
		return true
	}
	for _, p := range c.Prop {
		if p == prop {
			return true
		}
	}
	return false
}
