package main

import (
	"runtime"
	"crypto/sha256"
	"encoding/json"
	"flag"
	"go/types"
	"fmt"
	"os"
	"path/filepath"
	"sort"
	"strings"
	"sync"
	"time"

	"golang.org/x/tools/go/ssa"
	"golang.org/x/tools/go/ssa/ssautil"
)

type PropConfig struct {
	Packages      []string `json:"packages"`       // import paths to load
	Sweep         []string `json:"sweep"`          // package paths (or pkg:FuncPrefix) for the zero-annotation safety sweep
	SweepExclude  []string `json:"sweep_exclude"`  // function-name substrings excluded from the sweep
	Level         string   `json:"level"`
	TrustedBase   []string `json:"trusted_base"`
	Assumptions   []string `json:"assumptions"`
	PaperArgs     []string `json:"paper_arguments"`
	MinObligations int     `json:"min_obligations"`
}

type KnownFinding struct {
	Property    string `json:"property"`
	Obligation  string `json:"obligation"`
	Status      string `json:"status"` // open | fixed
	Description string `json:"description"`
	Commit      string `json:"commit,omitempty"`
}

func main() {
	if len(os.Args) < 2 {
		fmt.Fprintln(os.Stderr, "usage: govc check|dump ...")
		os.Exit(2)
	}
	switch os.Args[1] {
	case "check":
		os.Exit(cmdCheck(os.Args[2:]))
	case "parse":
		S := newSpecs()
		for _, f := range os.Args[2:] {
			if err := S.loadSpecFile(f); err != nil {
				fmt.Println("ERROR", err)
				os.Exit(1)
			}
		}
		fmt.Println("ok:", len(S.Contracts), "contracts,", len(S.Models), "models,", len(S.Defs), "defs")
	default:
		fmt.Fprintln(os.Stderr, "unknown command")
		os.Exit(2)
	}
}

func cmdCheck(args []string) int {
	fs := flag.NewFlagSet("check", flag.ExitOnError)
	prop := fs.String("prop", "", "property id")
	tier := fs.String("tier", "quick", "quick|thorough")
	root := fs.String("root", "/repo", "repository root")
	vdir := fs.String("verif", "/verif", "verif dir")
	only := fs.String("only", "", "only functions whose name contains this")
	keep := fs.Bool("keep", false, "keep all smt files")
	verbose := fs.Bool("v", false, "verbose")
	noEvidence := fs.Bool("no-evidence", false, "do not write evidence (debug runs)")
	writeBindings := fs.Bool("write-bindings", false, "record which variables the contract names denote on this tree into baseline/bindings.json (run on the pinned tree only)")
	_ = fs.Parse(args)
	t0 := time.Now()
	seed := 0
	if s := os.Getenv("VERIF_SEED"); s != "" {
		fmt.Sscanf(s, "%d", &seed)
	}
	id := *prop
	var cfgs map[string]*PropConfig
	data, err := os.ReadFile(filepath.Join(*vdir, "props.json"))
	if err != nil {
		fmt.Println("cannot read props.json:", err)
		return 2
	}
	if err := json.Unmarshal(data, &cfgs); err != nil {
		fmt.Println("props.json:", err)
		return 2
	}
	cfg := cfgs[id]
	if cfg == nil {
		fmt.Println("no configuration for property", id)
		return 2
	}
	outDir := filepath.Join(*vdir, "out", id)
	if o := os.Getenv("VERIF_OUT"); o != "" { // debugging runs against a scratch tree beside a registered run
		outDir = filepath.Join(o, id)
	}
	_ = os.RemoveAll(outDir)
	_ = os.MkdirAll(filepath.Join(outDir, "replay"), 0o755)

	contractSync := checkContractMirror(*vdir, *root)

	P, err := loadProgram(*root, cfg.Packages)
	if err != nil {
		return engineFailure(id, outDir, "loading /repo packages failed (does the tree compile?): "+err.Error())
	}
	tLoad := time.Since(t0).Seconds()
	S := newSpecs()
	S.TypeResolver = func(name string) (Sort, error) {
		ex := &Exec{P: P}
		t := ex.resolveType(name)
		if t == nil {
			return "", fmt.Errorf("gosort: unknown type %q", name)
		}
		if _, ok := t.Underlying().(*types.Struct); !ok {
			return "", fmt.Errorf("gosort: %q is not a struct type", name)
		}
		return Sort(structSortName(t)), nil
	}
	bindPath := filepath.Join(*vdir, "baseline", "bindings.json")
	if data, err := os.ReadFile(bindPath); err == nil {
		_ = json.Unmarshal(data, &globalBindings)
	}
	globalBindRecOn = *writeBindings
	if err := S.loadDir(filepath.Join(*vdir, "specs"), ".spec"); err != nil {
		return engineFailure(id, outDir, "spec files: "+err.Error())
	}
	if err := S.loadDir(filepath.Join(*vdir, "contracts"), ".go"); err != nil {
		return engineFailure(id, outDir, "contract files: "+err.Error())
	}
	// contracts of this property
	var keys []string
	for _, k := range S.Order {
		ct := S.Contracts[k]
		if ct.Kind != "func" {
			continue
		}
		for _, p := range ct.Props {
			if p == id {
				keys = append(keys, k)
			}
		}
	}

	baselineTargets, baselineFuncs := loadTargetLedger(filepath.Join(*vdir, "baseline", "targets.json"))
	_ = baselineFuncs
	var skippedNotes []string
	type work struct {
		fn    *ssa.Function
		ct    *Contract
		sweep bool
	}
	var works []work
	var reports []*FuncReport
	var missing []*Obligation
	for _, k := range keys {
		fn := lookupFunc(P, k)
		if fn == nil {
			// the function existed on the pinned tree (it is in the ledger of contract targets) but not now: it was renamed,
			// or inlined into its callers / removed. Renamed (a function of the same package with the same signature that
			// the pinned tree did not have): the contract follows it. Otherwise the contract is a lemma about code that
			// no longer exists; it is skipped (its callers are verified against what they call now) and noted.
			if sig, known := baselineTargets[k]; known {
				if nf := renamedTarget(P, k, sig); nf != nil {
					fn = nf
					skippedNotes = append(skippedNotes, "contract of "+shortName(k)+" follows the renamed function "+shortName(canonName(nf)))
				} else {
					skippedNotes = append(skippedNotes, "contract of "+shortName(k)+" skipped: the function no longer exists (inlined or removed); its former callers are verified against the code they contain now")
					continue
				}
			}
		}
		if fn == nil {
			missing = append(missing, &Obligation{Name: shortName(k) + "/contract-target-present", Func: shortName(k), Kind: "contract-target-present",
				Goal: "function under contract exists in the tree", Result: &SolverResult{Status: "engine", Output: "function " + k + " not found (renamed or removed?)"}})
			continue
		}
		if *only != "" && !strings.Contains(k, *only) {
			continue
		}
		if S.Contracts[k].Trusted {
			continue // assumed contract (listed in the evidence under trusted_base), not verified
		}
		works = append(works, work{fn, S.Contracts[k], false})
	}
	// sweep functions
	if len(cfg.Sweep) > 0 {
		for _, name := range sortedKeys(P.Funcs) {
			fn := P.Funcs[name]
			if !sweepSelected(name, fn, cfg) {
				continue
			}
			if *only != "" && !strings.Contains(name, *only) {
				continue
			}
			ct := S.Contracts[name]
			if ct == nil {
				ct = S.Contracts[shortName(name)]
			}
			dup := false
			for _, w := range works {
				if w.fn == fn {
					dup = true
				}
			}
			if dup {
				continue
			}
			works = append(works, work{fn, ct, true})
		}
	}
	reports = make([]*FuncReport, len(works))
	var wg sync.WaitGroup
	sem := make(chan struct{}, 8)
	var mu sync.Mutex
	_ = mu
	for i, w := range works {
		wg.Add(1)
		sem <- struct{}{}
		go func(i int, w work) {
			defer wg.Done()
			defer func() { <-sem }()
			reports[i] = verifyFunction(P, S, w.fn, w.ct, id, w.sweep || (id == "C19"))
		}(i, w)
	}
	wg.Wait()
	tGen := time.Since(t0).Seconds()

	var all []*Obligation
	all = append(all, missing...)
	for _, r := range reports {
		all = append(all, r.Obs...)
	}
	// lemmas
	timeout := 30 // quick tier: every obligation of the pinned tree but a handful is discharged in under 3 s on an idle machine (the slowest, two invariants of the chunker and the phase collector, in 4-6 s); the margin is for loaded machines
	requireAll := false
	if *tier == "thorough" {
		timeout = 60
		requireAll = true
	}
	if id == "C19" && *tier == "quick" {
		timeout = 3 // safety obligations that are provable at all are discharged in well under a second
	}
	dischargeAll(all, filepath.Join(outDir, "smt"), timeout, requireAll, solverPar())
	// optional loop invariants ("invariant?") that do not apply to the code or are not inductive are dropped and the
	// functions concerned are verified again without them (at most four rounds)
	for round := 0; round < 4; round++ {
		redo := map[int]bool{}
		for i, r := range reports {
			if r == nil {
				continue
			}
			if r.OptionalDropped {
				redo[i] = true
			}
			for _, ob := range r.Obs {
				if ob.OptKey != "" && ob.Result != nil && ob.Result.Status != "unsat" {
					droppedInvariantsMu.Lock()
					droppedInvariants[ob.OptKey] = true
					droppedInvariantsMu.Unlock()
					redo[i] = true
				}
			}
		}
		if len(redo) == 0 {
			break
		}
		var again []*Obligation
		for i := range redo {
			w := works[i]
			reports[i] = verifyFunction(P, S, w.fn, w.ct, id, w.sweep || (id == "C19"))
			again = append(again, reports[i].Obs...)
		}
		dischargeAll(again, filepath.Join(outDir, "smt"), timeout, requireAll, solverPar())
		all = all[:0]
		all = append(all, missing...)
		for _, r := range reports {
			all = append(all, r.Obs...)
		}
	}
	tSolve := time.Since(t0).Seconds()

	// ---- verdicts ----
	known := loadKnown(filepath.Join(*vdir, "known_findings.json"))
	base := loadBaseline(filepath.Join(*vdir, "baseline", id+".json"))
	var violations []string
	nObl, nDis, nCover, nCoverOK := 0, 0, 0, 0
	byBackend := map[string]int{}
	solverTime := 0.0
	var slow []map[string]any
	var samples []map[string]any
	var knownMatched []map[string]any
	exit := 0
	seenNames := map[string]bool{}
	sweepFailNow := map[string][]*Obligation{}
	sweepBase, sweepBaseNames := loadSweepBaseline(filepath.Join(*vdir, "baseline", id+".json"), known, id)
	sweepUndecided := 0
	for _, ob := range all {
		seenNames[ob.Name] = true
		r := ob.Result
		if len(ob.Props) > 0 && !containsStr(ob.Props, id) && !ob.ExpectSat {
			continue // obligation belongs to another property's clause of the same function
		}
		if ob.ExpectSat {
			nCover++
			if r.Status == "unsat" {
				violations = append(violations, ob.Name)
				writeReplay(outDir, id, ob, "vacuous: hypotheses of this function's contract are contradictory")
				fmt.Printf("VIOLATION property=%s replay=%s no-failing-input-found\n", id, replayPath(outDir, ob))
				exit = 1
			} else {
				nCoverOK++
			}
			continue
		}
		if id == "C19" && ob.Kind != "safe" && ob.Kind != "in-subset" && !containsStr(ob.Props, "C19") && ob.Kind != "contract-typechecks" && ob.Kind != "contract-target-present" {
			continue // the sweep only decides safety obligations; contract obligations belong to the other properties
		}
		if id == "C19" && ob.Kind == "in-subset" && r.Status != "unsat" {
			k := ob.Func + "|in-subset"
			sweepFailNow[k] = append(sweepFailNow[k], ob)
			continue
		}
		if r.Status == "unsat" {
			nObl++
			nDis++
			byBackend[r.Backend]++
			solverTime += r.TimeS
			if r.TimeS > 1.0 {
				slow = append(slow, map[string]any{"obligation": ob.Name, "time_s": r.TimeS, "backend": r.Backend})
			}
			if len(samples) < 6 {
				samples = append(samples, map[string]any{"obligation": ob.Name, "goal": ob.Goal, "pos": ob.Pos, "result": "unsat", "backend": r.Backend})
			}
			continue
		}
		// undischarged
		if kf := matchKnown(known, id, ob.Name); kf != nil {
			knownMatched = append(knownMatched, map[string]any{"obligation": ob.Name, "status": r.Status, "description": kf.Description})
			fmt.Printf("KNOWN-FINDING: property=%s %s: %s\n", id, ob.Name, kf.Description)
			continue
		}
		if id == "C19" && ob.Kind == "safe" {
			// zero-annotation sweep: an undischarged safety obligation is a violation only if the function now has more
			// undischarged obligations of that kind than on the pinned tree (baseline), see below
			k := ob.Func + "|" + safeKind(ob.Name)
			sweepFailNow[k] = append(sweepFailNow[k], ob)
			continue
		}
		nObl++
		violations = append(violations, ob.Name)
		suffix := ""
		why := r.Status
		if r.Status != "sat" {
			suffix = " no-failing-input-found"
		} else {
			suffix = " no-failing-input-found" // model available in replay file; automatic replay against the real code is family-specific
		}
		writeReplay(outDir, id, ob, why)
		fmt.Printf("VIOLATION property=%s replay=%s%s\n", id, replayPath(outDir, ob), suffix)
		fmt.Printf("  failed obligation: %s (%s) at %s\n    %s\n", ob.Name, why, ob.Pos, ob.Goal)
		exit = 1
	}
	if id == "C19" {
		undecided := 0
		for k, obs := range sweepFailNow {
			allowed := sweepBase[k]
			if len(obs) <= allowed {
				undecided += len(obs)
				continue
			}
			// more undischarged obligations than on the pinned tree: report those not known from the baseline by name
			extra := len(obs) - allowed
			sort.Slice(obs, func(i, j int) bool { return obs[i].Name < obs[j].Name })
			var fresh []*Obligation
			for _, ob := range obs {
				if !sweepBaseNames[ob.Name] {
					fresh = append(fresh, ob)
				}
			}
			for len(fresh) < extra {
				fresh = append(fresh, obs[len(obs)-1-len(fresh)])
			}
			for _, ob := range fresh[:extra] {
				nObl++
				violations = append(violations, ob.Name)
				writeReplay(outDir, id, ob, ob.Result.Status)
				fmt.Printf("VIOLATION property=%s replay=%s no-failing-input-found\n", id, replayPath(outDir, ob))
				fmt.Printf("  failed obligation: %s (%s) at %s\n    %s (not discharged; the pinned tree has %d undischarged %s obligations in this function, now %d)\n", ob.Name, ob.Result.Status, ob.Pos, ob.Goal, allowed, safeKind(ob.Name), len(obs))
				exit = 1
			}
			undecided += allowed
		}
		sweepUndecided = undecided
	}
	// disappearing obligations (vacuity by deletion)
	if base != nil && *only == "" {
		var gone []string
		for k := range base {
			found := false
			for n := range seenNames {
				if baseKey(n) == k {
					found = true
				}
			}
			if !found && obligationKindCounts(k) {
				gone = append(gone, k)
			}
		}
		sort.Strings(gone)
		for _, g := range gone {
			if id == "C19" {
				continue // safety obligations legitimately disappear when code is removed
			}
			ob := &Obligation{Name: g + "/obligations-present", Kind: "obligations-present", Goal: "obligation generated on the pinned tree is still generated", Result: &SolverResult{Status: "engine", Output: "obligation " + g + " is no longer generated (contract made vacuous by the change?)"}}
			nObl++
			violations = append(violations, ob.Name)
			writeReplay(outDir, id, ob, "missing")
			fmt.Printf("VIOLATION property=%s replay=%s no-failing-input-found\n", id, replayPath(outDir, ob))
			fmt.Printf("  %s\n", ob.Result.Output)
			exit = 1
		}
	}
	if nObl < cfg.MinObligations && *only == "" {
		fmt.Printf("VIOLATION property=%s replay=%s no-failing-input-found\n  only %d obligations generated, expected at least %d (engine or contract set broken)\n", id, filepath.Join(outDir, "replay", "min-obligations.json"), nObl, cfg.MinObligations)
		_ = os.WriteFile(filepath.Join(outDir, "replay", "min-obligations.json"), []byte(fmt.Sprintf(`{"obligations":%d,"expected_min":%d}`, nObl, cfg.MinObligations)), 0o644)
		exit = 1
	}

	// ---- evidence ----
	var funcs []map[string]any
	var notes []string
	notes = append(notes, skippedNotes...)
	for _, n := range skippedNotes {
		fmt.Println("NOTE: " + n)
	}
	unknown := map[string]int{}
	var rejected []string
	usedSpecs := map[string]bool{}
	for i, r := range reports {
		h := sha256.Sum256([]byte(funcSource(P, works[i].fn)))
		funcs = append(funcs, map[string]any{"name": r.Name, "file": r.File, "sha256": fmt.Sprintf("%x", h[:8]), "obligations": len(r.Obs), "sweep_only": works[i].ct == nil})
		notes = append(notes, r.Notes...)
		for k, v := range r.Unknown {
			unknown[k] += v
		}
		if r.Rejected != "" {
			rejected = append(rejected, r.Name+": "+r.Rejected)
		}
		for _, s := range r.Specs {
			usedSpecs[s] = true
		}
	}
	var trusted []string
	trusted = append(trusted, cfg.TrustedBase...)
	for _, k := range sortedKeys(usedSpecs) {
		ct := S.Contracts[k]
		if ct != nil && (ct.Kind == "lib" || ct.Kind == "iface" || ct.Trusted) {
			trusted = append(trusted, "spec "+ct.Kind+" "+k+" ("+ct.File+")")
		}
	}
	var unk []string
	for _, k := range sortedKeys(unknown) {
		unk = append(unk, fmt.Sprintf("%s x%d", shortName(k), unknown[k]))
	}
	level := cfg.Level
	if level == "" {
		level = "proof"
	}
	ev := map[string]any{
		"property_id": id, "tier": *tier, "seed": seed, "level": level, "wall_s": time.Since(t0).Seconds(), "violations": len(violations),
		"coverage": map[string]any{
			"obligations": nObl, "discharged": nDis,
			"checker_cmd": fmt.Sprintf("/verif/check %s --tier %s  (govc: go/ssa symbolic execution of /repo's working tree -> SMT-LIB; z3 5.1.0, z3 4.8.12, cvc5 1.0.3 raced per obligation, timeout %ds)", id, *tier, timeout),
			"trusted_base": trusted,
			"functions_under_contract": funcs,
			"by_backend": byBackend, "solver_time_s": solverTime, "slowest": slow,
			"samples": samples, "vacuity": map[string]any{"covers": nCover, "covers_not_refuted": nCoverOK},
			"known_finding_obligations": knownMatched,
			"calls_without_spec_havocked": unk,
			"out_of_subset": rejected,
			"encoding_notes": dedup(notes),
			"paper_arguments": cfg.PaperArgs,
			"contract_mirror": contractSync,
			"timing_s": map[string]float64{"load": tLoad, "vcgen": tGen - tLoad, "solve": tSolve - tGen},
			"failed_obligations": violations,
			"sweep_undecided_obligations": sweepUndecided,
		},
		"assumptions": append([]string{
			"machine integers are mathematical integers with declared ranges (no wrap-around) except where a conversion narrows",
			"termination is not proved; panics inside dependencies are not modelled",
			"method receivers are non-nil; values are well-typed",
			"slices of different element types never share a backing allocation; the backing array of a slice is an allocation of its own",
			"a callee without an assigns clause does not change ghost fields that only the contract under verification writes (no call-backs into the function under verification)",
			"decoders (json/yaml Unmarshal) write only into the allocation of their target, function-local maps and fresh memory",
			"contract names that no longer exist are bound by position (baseline/bindings.json); contracts of functions that no longer exist are skipped (baseline/targets.json) - both reported as notes",
		}, cfg.Assumptions...),
	}
	if !*noEvidence {
		_ = os.MkdirAll(filepath.Join(*vdir, "evidence"), 0o755)
		b, _ := json.MarshalIndent(ev, "", " ")
		_ = os.WriteFile(filepath.Join(*vdir, "evidence", id+".json"), b, 0o644)
	}
	// ledger of this run (used to build the baseline)
	led := map[string]map[string]any{}
	for _, ob := range all {
		if ob.ExpectSat {
			continue
		}
		led[ob.Name] = map[string]any{"status": ob.Result.Status, "backend": ob.Result.Backend, "time_s": ob.Result.TimeS}
	}
	b, _ := json.MarshalIndent(led, "", " ")
	_ = os.WriteFile(filepath.Join(outDir, "ledger.json"), b, 0o644)
	if *writeBindings {
		writeTargetLedger(filepath.Join(*vdir, "baseline", "targets.json"), P, S)
		merged := globalBindings
		if merged == nil {
			merged = map[string]map[string]*BindDesc{}
		}
		for _, e := range globalBindRecs {
			for fnk, m := range e.bindRec {
				if merged[fnk] == nil {
					merged[fnk] = map[string]*BindDesc{}
				}
				for n, d := range m {
					merged[fnk][n] = d
				}
			}
		}
		bb, _ := json.MarshalIndent(merged, "", " ")
		_ = os.WriteFile(bindPath, bb, 0o644)
	}
	if !*keep {
		// keep only failing scripts
		for _, ob := range all {
			if ob.File != "" && ob.Result != nil && (ob.Result.Status == "unsat" || (ob.ExpectSat && ob.Result.Status != "unsat")) {
				_ = os.Remove(ob.File)
			}
		}
	}
	fmt.Printf("%s: %d obligations, %d discharged, %d violations, %d known findings; covers %d/%d; load %.1fs gen %.1fs solve %.1fs\n",
		id, nObl, nDis, len(violations), len(knownMatched), nCoverOK, nCover, tLoad, tGen-tLoad, tSolve-tGen)
	if *verbose {
		for _, ob := range all {
			fmt.Printf("  %-8s %-10s %6.2fs %s\n", ob.Result.Status, ob.Result.Backend, ob.Result.TimeS, ob.Name)
		}
		for _, n := range dedup(notes) {
			fmt.Println("  note:", n)
		}
		for _, u := range unk {
			fmt.Println("  havoc:", u)
		}
	}
	return exit
}

func dedup(xs []string) []string {
	m := map[string]bool{}
	var out []string
	for _, x := range xs {
		if !m[x] {
			m[x] = true
			out = append(out, x)
		}
	}
	sort.Strings(out)
	return out
}

func obligationKindCounts(name string) bool {
	return strings.Contains(name, "/sink/") || strings.Contains(name, "/post/") || strings.Contains(name, "/pre/") || strings.Contains(name, "/assert/") || strings.Contains(name, "/inv-")
}

// baseKey strips the duplicate-suffix so that ledgers are robust against reordering.
func baseKey(n string) string { return n }

func lookupFunc(P *Program, key string) *ssa.Function {
	if fn := lookupFunc0(P, key); fn != nil {
		if fn.TypeParams().Len() > 0 && len(fn.TypeArgs()) == 0 {
			// generic origin: verify an instantiation (the code that actually runs)
			for inst := range ssautil.AllFunctions(P.Prog) {
				if inst.Origin() == fn && len(inst.Blocks) > 0 {
					return inst
				}
			}
		}
		return fn
	}
	return nil
}

func lookupFunc0(P *Program, key string) *ssa.Function {
	if fn, ok := P.Funcs[key]; ok {
		return fn
	}
	if fn, ok := P.Funcs["package-operator.run/"+key]; ok {
		return fn
	}
	return nil
}

func sweepSelected(name string, fn *ssa.Function, cfg *PropConfig) bool {
	if len(fn.Blocks) == 0 || fn.Synthetic != "" {
		return false
	}
	pp := funcPkgPath(fn)
	sel := false
	for _, s := range cfg.Sweep {
		if i := strings.Index(s, ":"); i >= 0 {
			if pp == s[:i] && strings.Contains(name, s[i+1:]) {
				sel = true
			}
		} else if pp == s {
			sel = true
		}
	}
	if !sel {
		return false
	}
	for _, e := range cfg.SweepExclude {
		if strings.Contains(name, e) {
			return false
		}
	}
	if strings.HasSuffix(fn.Name(), "init") && fn.Signature.Recv() == nil && fn.Parent() == nil && fn.Name() == "init" {
		return false
	}
	return true
}

func funcSource(P *Program, fn *ssa.Function) string {
	if fn.Syntax() == nil {
		return fn.String()
	}
	s, e := P.Fset.Position(fn.Syntax().Pos()), P.Fset.Position(fn.Syntax().End())
	data, err := os.ReadFile(s.Filename)
	if err != nil || e.Offset > len(data) {
		return fn.String()
	}
	return string(data[s.Offset:e.Offset])
}

func engineFailure(id, outDir, msg string) int {
	p := filepath.Join(outDir, "replay", "engine.json")
	_ = os.MkdirAll(filepath.Dir(p), 0o755)
	b, _ := json.MarshalIndent(map[string]any{"property": id, "obligation": "engine/setup", "reason": msg}, "", " ")
	_ = os.WriteFile(p, b, 0o644)
	fmt.Printf("VIOLATION property=%s replay=%s no-failing-input-found\n  %s\n", id, p, msg)
	return 1
}

func replayPath(outDir string, ob *Obligation) string {
	n := sanitize(ob.Name)
	if len(n) > 150 {
		n = n[:150] + fmt.Sprintf("_%x", hashStr(ob.Name))
	}
	return filepath.Join(outDir, "replay", n+".json")
}

func writeReplay(outDir, id string, ob *Obligation, why string) {
	m := map[string]any{"property": id, "obligation": ob.Name, "kind": ob.Kind, "goal": ob.Goal, "position": ob.Pos, "status": why,
		"smt_script": ob.File, "solver_output": trunc(ob.Result.Output, 6000), "solver_statuses": ob.Result.All,
		"replay_note": "counterexample models (when status is sat) are given in solver_output; no automatic replay harness is attached to this obligation"}
	b, _ := json.MarshalIndent(m, "", " ")
	_ = os.WriteFile(replayPath(outDir, ob), b, 0o644)
}

func loadKnown(path string) []KnownFinding {
	var out []KnownFinding
	data, err := os.ReadFile(path)
	if err != nil {
		return nil
	}
	_ = json.Unmarshal(data, &out)
	return out
}

func matchKnown(known []KnownFinding, id, ob string) *KnownFinding {
	for i := range known {
		k := &known[i]
		if k.Status == "open" && k.Property == id && k.Obligation == ob {
			return k
		}
	}
	return nil
}

func loadBaseline(path string) map[string]bool {
	data, err := os.ReadFile(path)
	if err != nil {
		return nil
	}
	var led map[string]map[string]any
	if json.Unmarshal(data, &led) != nil {
		return nil
	}
	out := map[string]bool{}
	for k, v := range led {
		if v["status"] == "unsat" {
			out[k] = true
		}
	}
	return out
}

// checkContractMirror compares /verif/contracts/<pkg>/zz_contracts_verif.go with the copy in /repo.
func checkContractMirror(vdir, root string) map[string]string {
	out := map[string]string{}
	base := filepath.Join(vdir, "contracts")
	_ = filepath.Walk(base, func(p string, info os.FileInfo, err error) error {
		if err != nil || info.IsDir() || !strings.HasSuffix(p, ".go") {
			return nil
		}
		rel, _ := filepath.Rel(base, p)
		a, _ := os.ReadFile(p)
		b, err2 := os.ReadFile(filepath.Join(root, rel))
		switch {
		case err2 != nil:
			out[rel] = "absent in /repo (canonical copy from /verif/contracts used)"
		case string(a) == string(b):
			out[rel] = "identical to /repo copy"
		default:
			out[rel] = "DIFFERS from /repo copy (canonical copy from /verif/contracts used)"
		}
		return nil
	})
	return out
}

func containsStr(xs []string, x string) bool {
	for _, y := range xs {
		if y == x {
			return true
		}
	}
	return false
}

// safeKind extracts "<kind>" of a sweep obligation name ".../safe/<kind>[~n]".
func safeKind(name string) string {
	i := strings.LastIndex(name, "/safe/")
	if i < 0 {
		if strings.HasSuffix(name, "/in-subset") {
			return "in-subset"
		}
		return ""
	}
	k := name[i+6:]
	if j := strings.Index(k, "~"); j >= 0 {
		k = k[:j]
	}
	return k
}

// loadSweepBaseline: per function and kind, how many safety obligations are undischarged on the pinned tree
// (obligations listed as known findings are not part of that allowance).
func loadSweepBaseline(path string, known []KnownFinding, id string) (map[string]int, map[string]bool) {
	out := map[string]int{}
	names := map[string]bool{}
	data, err := os.ReadFile(path)
	if err != nil {
		return out, names
	}
	var led map[string]map[string]any
	if json.Unmarshal(data, &led) != nil {
		return out, names
	}
	for name, v := range led {
		if v["status"] == "unsat" {
			continue
		}
		if strings.HasSuffix(name, "/in-subset") {
			out[strings.TrimSuffix(name, "/in-subset")+"|in-subset"]++
			names[name] = true
			continue
		}
		if !strings.Contains(name, "/safe/") {
			continue
		}
		if matchKnown(known, id, name) != nil {
			continue
		}
		fn := name[:strings.LastIndex(name, "/safe/")]
		out[fn+"|"+safeKind(name)]++
		names[name] = true
	}
	return out, names
}

// ---- ledger of contract targets (functions under contract on the pinned tree, with their signatures) ----

type targetLedger struct {
	Targets map[string]string `json:"targets"` // contract key -> signature
	Funcs   map[string]bool   `json:"funcs"`   // every function of /repo packages that have contracts
}

func sigString(fn *ssa.Function) string {
	return types.TypeString(fn.Signature, nil)
}

func loadTargetLedger(path string) (map[string]string, map[string]bool) {
	var l targetLedger
	if data, err := os.ReadFile(path); err == nil {
		_ = json.Unmarshal(data, &l)
	}
	if l.Targets == nil {
		l.Targets = map[string]string{}
	}
	if l.Funcs == nil {
		l.Funcs = map[string]bool{}
	}
	ledgerFuncs = l.Funcs
	ledgerTargets = l.Targets
	return l.Targets, l.Funcs
}

var ledgerFuncs map[string]bool
var ledgerTargets map[string]string

func writeTargetLedger(path string, P *Program, S *Specs) {
	t, f := loadTargetLedger(path)
	pkgs := map[string]bool{}
	for k, ct := range S.Contracts {
		if ct.Kind != "func" {
			continue
		}
		if fn := lookupFunc(P, k); fn != nil {
			t[k] = sigString(fn)
			pkgs[funcPkgPath(fn)] = true
		}
	}
	for name, fn := range P.Funcs {
		if pkgs[funcPkgPath(fn)] {
			f[name] = true
		}
	}
	b, _ := json.MarshalIndent(targetLedger{Targets: t, Funcs: f}, "", " ")
	_ = os.WriteFile(path, b, 0o644)
}

// renamedTarget: the unique function of the same package (and receiver) with signature sig that the pinned tree did not have.
func renamedTarget(P *Program, key, sig string) *ssa.Function {
	pkg := key
	if i := strings.LastIndex(key, "."); i >= 0 {
		pkg = key[:i]
	}
	if i := strings.Index(pkg, ".("); i >= 0 {
		pkg = pkg[:i]
	}
	var found *ssa.Function
	n := 0
	for name, fn := range P.Funcs {
		if funcPkgPath(fn) != pkg || ledgerFuncs[name] || fn.Synthetic != "" || fn.Parent() != nil {
			continue
		}
		if sigString(fn) == sig {
			found = fn
			n++
		}
	}
	if n == 1 {
		return found
	}
	return nil
}

// solverPar: obligations discharged at a time. Three solvers race on each, so a third of the cores keeps every solver
// process on a core of its own (wall-clock timeouts then mean what they say, also on a loaded machine).
func solverPar() int {
	n := runtime.NumCPU() / 3
	if n < 2 {
		n = 2
	}
	return n
}
